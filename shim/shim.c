/* placeholder; replaced below */
int shim_placeholder;
