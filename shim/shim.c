/* LD_PRELOAD syscall-seam shim for Tier B (the shipped customasm binary in a
 * fresh process). It owns getrandom, clock_gettime and the file calls std
 * uses (statx/stat, open/open64/openat, read, write, close), logs every
 * intercepted file call and overrides outcomes according to a fault plan.
 *
 * Environment:
 *   SHIM_ROOT   absolute path of the scratch root; only paths that resolve
 *               under it get fault treatment (everything is logged)
 *   SHIM_LOG    file to append the event log to
 *   SHIM_PLAN   newline-separated "<kind> <absolute path>" entries;
 *               path "*" = every path under the root
 *   SHIM_KEYS   32 hex digits returned by getrandom (hash keys)
 *   SHIM_CLOCK  seconds returned by clock_gettime (optional)
 *   SHIM_CLOCK_TICK_NS  simulated time that passes with every read (optional)
 *
 * Permanent kinds : probe-enoent open-eacces open-emfile read-eio read-eio-late
 *                   create-eacces create-erofs create-enoent
 *                   write-enospc write-eio write-short-enospc
 * Masked kinds    : eintr-read eintr-write short-read short-write stat-fd-fail
 *                   stat-fd-inflate (the size hint is 4096 too large, as for
 *                   sysfs attributes: a reader must go by EOF, not by st_size)
 */
#define _GNU_SOURCE
#include <dlfcn.h>
#include <errno.h>
#include <fcntl.h>
#include <limits.h>
#include <stdarg.h>
#include <stdio.h>
#include <stdlib.h>
#include <string.h>
#include <sys/stat.h>
#include <sys/syscall.h>
#include <sys/types.h>
#include <time.h>
#include <unistd.h>

#define MAXFD 256
#define MAXPLAN 64

struct plan_entry { char kind[32]; char path[PATH_MAX]; int fired; };

static int inited = 0;
static char root[PATH_MAX];
static size_t root_len = 0;
static int log_fd = -1;
static struct plan_entry plan[MAXPLAN];
static int nplan = 0;
static unsigned char keys[16];
static int have_keys = 0;
static long long clock_sec = -1;
static long long clock_nsec = 0;
static long long clock_tick_ns = 0; /* simulated time passing with every read */
static unsigned long seq = 0;

/* per-fd state for files opened under the root */
static char fd_path[MAXFD][PATH_MAX];
static int fd_live[MAXFD];
static int fd_is_out[MAXFD];
static int fd_eintr_toggle[MAXFD];
static long fd_written[MAXFD];

static long raw_write(int fd, const void *buf, size_t n) { return syscall(SYS_write, fd, buf, n); }
static long raw_read(int fd, void *buf, size_t n) { return syscall(SYS_read, fd, buf, n); }

static int hexval(char c) {
    if (c >= '0' && c <= '9') return c - '0';
    if (c >= 'a' && c <= 'f') return c - 'a' + 10;
    if (c >= 'A' && c <= 'F') return c - 'A' + 10;
    return 0;
}

static void init(void) {
    if (inited) return;
    inited = 1;
    const char *r = getenv("SHIM_ROOT");
    if (r) { strncpy(root, r, sizeof(root) - 1); root_len = strlen(root); }
    const char *l = getenv("SHIM_LOG");
    if (l) log_fd = (int)syscall(SYS_openat, AT_FDCWD, l, O_WRONLY | O_APPEND | O_CREAT | O_CLOEXEC, 0644);
    const char *k = getenv("SHIM_KEYS");
    if (k && strlen(k) >= 32) {
        for (int i = 0; i < 16; i++) keys[i] = (unsigned char)(hexval(k[2 * i]) * 16 + hexval(k[2 * i + 1]));
        have_keys = 1;
    }
    const char *c = getenv("SHIM_CLOCK");
    if (c && *c) clock_sec = atoll(c);
    const char *tk = getenv("SHIM_CLOCK_TICK_NS");
    if (tk && *tk) clock_tick_ns = atoll(tk);
    const char *p = getenv("SHIM_PLAN");
    if (p) {
        while (*p && nplan < MAXPLAN) {
            const char *nl = strchr(p, '\n');
            size_t len = nl ? (size_t)(nl - p) : strlen(p);
            const char *sp = memchr(p, ' ', len);
            if (sp) {
                size_t kl = (size_t)(sp - p);
                size_t pl = len - kl - 1;
                if (kl < sizeof(plan[0].kind) && pl < PATH_MAX) {
                    memcpy(plan[nplan].kind, p, kl); plan[nplan].kind[kl] = 0;
                    memcpy(plan[nplan].path, sp + 1, pl); plan[nplan].path[pl] = 0;
                    plan[nplan].fired = 0;
                    nplan++;
                }
            }
            if (!nl) break;
            p = nl + 1;
        }
    }
}

static void logev(const char *op, const char *path, const char *resolved, int fd, long ret, int err, int fault) {
    if (log_fd < 0) return;
    char buf[2 * PATH_MAX + 128];
    int n = snprintf(buf, sizeof(buf), "%lu|%s|%s|%s|%d|%ld|%d|%d\n", ++seq, op, path ? path : "", resolved ? resolved : "", fd, ret, err, fault);
    if (n > 0) raw_write(log_fd, buf, (size_t)n);
}

/* Absolute path a name denotes, through the kernel's own resolution where
 * the file (or its directory) exists. */
static void resolve_at(int dirfd, const char *path, char *out) {
    char tmp[PATH_MAX];
    out[0] = 0;
    if (!path) return;
    if (dirfd != AT_FDCWD && path[0] != '/') { strncpy(out, path, PATH_MAX - 1); out[PATH_MAX - 1] = 0; return; }
    int saved = errno;
    if (realpath(path, tmp)) { strcpy(out, tmp); errno = saved; return; }
    /* not there: resolve the directory part, keep the last component */
    char copy[PATH_MAX];
    strncpy(copy, path, sizeof(copy) - 1); copy[sizeof(copy) - 1] = 0;
    size_t len = strlen(copy);
    while (len > 1 && copy[len - 1] == '/') copy[--len] = 0;
    char *slash = strrchr(copy, '/');
    const char *base = slash ? slash + 1 : copy;
    char dir[PATH_MAX];
    if (slash) {
        if (slash == copy) strcpy(dir, "/");
        else { *slash = 0; strcpy(dir, copy); }
    } else strcpy(dir, ".");
    if (strcmp(base, "..") != 0 && strcmp(base, ".") != 0 && realpath(dir, tmp)) {
        if (strcmp(tmp, "/") == 0) snprintf(out, PATH_MAX, "/%s", base);
        else snprintf(out, PATH_MAX, "%s/%s", tmp, base);
    } else {
        /* lexical fallback */
        if (path[0] == '/') strncpy(out, path, PATH_MAX - 1);
        else {
            char cwd[PATH_MAX];
            if (!getcwd(cwd, sizeof(cwd))) cwd[0] = 0;
            snprintf(out, PATH_MAX, "%s/%s", cwd, path);
        }
        out[PATH_MAX - 1] = 0;
    }
    errno = saved;
}

static int under_root(const char *abs) {
    return root_len > 0 && strncmp(abs, root, root_len) == 0 && (abs[root_len] == '/' || abs[root_len] == 0);
}

/* index of the matching plan entry, without counting it as fired */
static int plan_find(const char *kind, const char *abs) {
    for (int i = 0; i < nplan; i++) {
        if (strcmp(plan[i].kind, kind) != 0) continue;
        if (strcmp(plan[i].path, "*") == 0 ? under_root(abs) : strcmp(plan[i].path, abs) == 0) return i;
    }
    return -1;
}

static int plan_hit(const char *kind, const char *abs) {
    for (int i = 0; i < nplan; i++) {
        if (strcmp(plan[i].kind, kind) != 0) continue;
        if (strcmp(plan[i].path, "*") == 0 ? under_root(abs) : strcmp(plan[i].path, abs) == 0) {
            plan[i].fired++;
            return 1;
        }
    }
    return 0;
}

/* ------------------------------------------------------------ environment */

ssize_t getrandom(void *buf, size_t len, unsigned int flags) {
    init();
    if (!have_keys) return syscall(SYS_getrandom, buf, len, flags);
    unsigned char *p = buf;
    for (size_t i = 0; i < len; i++) p[i] = keys[i % 16];
    return (ssize_t)len;
}

int clock_gettime(clockid_t clk, struct timespec *ts) {
    init();
    if (clock_sec < 0) return (int)syscall(SYS_clock_gettime, clk, ts);
    if (ts) { ts->tv_sec = (time_t)clock_sec; ts->tv_nsec = (long)clock_nsec; }
    if (clock_tick_ns != 0) {
        long long total = clock_nsec + clock_tick_ns;
        long long carry = total / 1000000000LL;
        total %= 1000000000LL;
        if (total < 0) { total += 1000000000LL; carry -= 1; }
        clock_nsec = total;
        if (clock_sec + carry >= 0) clock_sec += carry;
    }
    return 0;
}

/* ------------------------------------------------------------------ probes */

/* glibc declares statx with __nonnull((2,5)) and gcc then deletes NULL checks;
 * std probes availability with statx(0, NULL, 0, mask, NULL), so the
 * function is defined under another name and exported through an alias. */
int shim_statx(int dirfd, const char *path, int flags, unsigned int mask, void *st) {
    init();
    if (path && path[0] == 0 && (flags & AT_EMPTY_PATH)) {
        /* fstat-like: size hint for read_to_end */
        if (dirfd >= 0 && dirfd < MAXFD && fd_live[dirfd] && plan_hit("stat-fd-fail", fd_path[dirfd])) {
            logev("fstat", "", fd_path[dirfd], dirfd, -1, EIO, 1);
            errno = EIO; return -1;
        }
        long r0 = syscall(SYS_statx, dirfd, path, flags, mask, st);
        if (r0 == 0 && st && dirfd >= 0 && dirfd < MAXFD && fd_live[dirfd] && !fd_is_out[dirfd] && plan_hit("stat-fd-inflate", fd_path[dirfd])) {
            ((struct statx *)st)->stx_size += 4096;
            logev("fstat", "", fd_path[dirfd], dirfd, 0, 0, 1);
        }
        return (int)r0;
    }
    if (!path) /* std's availability probe statx(0, NULL, 0, mask, NULL): not a file access */
        return (int)syscall(SYS_statx, dirfd, path, flags, mask, st);
    char abs[PATH_MAX];
    resolve_at(dirfd, path, abs);
    if (under_root(abs) && plan_hit("probe-enoent", abs)) {
        logev("probe", path, abs, -1, -1, ENOENT, 1);
        errno = ENOENT; return -1;
    }
    long r = syscall(SYS_statx, dirfd, path, flags, mask, st);
    int e = errno;
    logev("probe", path, abs, -1, r, r < 0 ? e : 0, 0);
    errno = e;
    return (int)r;
}

static int do_stat(const char *op, const char *path, struct stat *st, int nofollow) {
    char abs[PATH_MAX];
    resolve_at(AT_FDCWD, path, abs);
    if (under_root(abs) && plan_hit("probe-enoent", abs)) {
        logev(op, path, abs, -1, -1, ENOENT, 1);
        errno = ENOENT; return -1;
    }
    long r = syscall(SYS_newfstatat, AT_FDCWD, path, st, nofollow ? AT_SYMLINK_NOFOLLOW : 0);
    int e = errno;
    logev(op, path, abs, -1, r, r < 0 ? e : 0, 0);
    errno = e;
    return (int)r;
}

int stat(const char *path, struct stat *st) { init(); return do_stat("probe", path, st, 0); }
int stat64(const char *path, struct stat64 *st) { init(); return do_stat("probe", path, (struct stat *)st, 0); }
int lstat(const char *path, struct stat *st) { init(); return do_stat("probe", path, st, 1); }
int lstat64(const char *path, struct stat64 *st) { init(); return do_stat("probe", path, (struct stat *)st, 1); }

/* -------------------------------------------------------------------- open */

static int do_open(int dirfd, const char *path, int flags, mode_t mode) {
    char abs[PATH_MAX];
    resolve_at(dirfd, path, abs);
    int creating = (flags & O_CREAT) || ((flags & O_ACCMODE) != O_RDONLY);
    int in_root = under_root(abs);
    if (in_root) {
        int err = 0;
        if (creating) {
            if (plan_hit("create-eacces", abs)) err = EACCES;
            else if (plan_hit("create-erofs", abs)) err = EROFS;
            else if (plan_hit("create-enoent", abs)) err = ENOENT;
        } else {
            if (plan_hit("probe-enoent", abs)) err = ENOENT; /* permanently absent */
            else if (plan_hit("open-eacces", abs)) err = EACCES;
            else if (plan_hit("open-emfile", abs)) err = EMFILE;
        }
        if (err) {
            logev(creating ? "create" : "open", path, abs, -1, -1, err, 1);
            errno = err; return -1;
        }
    }
    long r = syscall(SYS_openat, dirfd, path, flags, mode);
    int e = errno;
    logev(creating ? "create" : "open", path, abs, (int)r, r, r < 0 ? e : 0, 0);
    if (r >= 0 && r < MAXFD) {
        fd_live[r] = 1;
        fd_is_out[r] = creating;
        fd_eintr_toggle[r] = 0;
        fd_written[r] = 0;
        strncpy(fd_path[r], abs, PATH_MAX - 1);
        fd_path[r][PATH_MAX - 1] = 0;
    }
    errno = e;
    return (int)r;
}

int open(const char *path, int flags, ...) {
    init();
    mode_t mode = 0;
    if (flags & (O_CREAT | O_TMPFILE)) { va_list ap; va_start(ap, flags); mode = (mode_t)va_arg(ap, int); va_end(ap); }
    return do_open(AT_FDCWD, path, flags, mode);
}
int open64(const char *path, int flags, ...) {
    init();
    mode_t mode = 0;
    if (flags & (O_CREAT | O_TMPFILE)) { va_list ap; va_start(ap, flags); mode = (mode_t)va_arg(ap, int); va_end(ap); }
    return do_open(AT_FDCWD, path, flags, mode);
}
int openat(int dirfd, const char *path, int flags, ...) {
    init();
    mode_t mode = 0;
    if (flags & (O_CREAT | O_TMPFILE)) { va_list ap; va_start(ap, flags); mode = (mode_t)va_arg(ap, int); va_end(ap); }
    return do_open(dirfd, path, flags, mode);
}
int openat64(int dirfd, const char *path, int flags, ...) {
    init();
    mode_t mode = 0;
    if (flags & (O_CREAT | O_TMPFILE)) { va_list ap; va_start(ap, flags); mode = (mode_t)va_arg(ap, int); va_end(ap); }
    return do_open(dirfd, path, flags, mode);
}
int creat(const char *path, mode_t mode) { init(); return do_open(AT_FDCWD, path, O_CREAT | O_WRONLY | O_TRUNC, mode); }
int creat64(const char *path, mode_t mode) { init(); return do_open(AT_FDCWD, path, O_CREAT | O_WRONLY | O_TRUNC, mode); }

/* ------------------------------------------------------------- read/write */

ssize_t read(int fd, void *buf, size_t n) {
    init();
    if (fd >= 0 && fd < MAXFD && fd_live[fd] && under_root(fd_path[fd])) {
        const char *abs = fd_path[fd];
        if (plan_hit("read-eio", abs)) {
            logev("read", "", abs, fd, -1, EIO, 1);
            errno = EIO; return -1;
        }
        int late = plan_find("read-eio-late", abs);
        if (late >= 0) {
            /* the medium fails in the middle of the file: the first read of
             * this descriptor delivers up to 3 bytes, every later one EIO
             * (only the EIO counts as the fault having fired) */
            if (fd_written[fd] > 0) {
                plan[late].fired++;
                logev("read", "", abs, fd, -1, EIO, 1);
                errno = EIO; return -1;
            }
            long r0 = raw_read(fd, buf, n > 3 ? 3 : n);
            int e0 = errno;
            if (r0 > 0) fd_written[fd] = 1; else if (r0 == 0) fd_written[fd] = 1;
            logev("read", "", abs, fd, r0, r0 < 0 ? e0 : 0, 0); /* nothing failed yet */
            errno = e0;
            return r0;
        }
        if (plan_hit("eintr-read", abs)) {
            fd_eintr_toggle[fd] ^= 1;
            if (fd_eintr_toggle[fd]) {
                logev("read", "", abs, fd, -1, EINTR, 1);
                errno = EINTR; return -1;
            }
        }
        size_t want = n;
        int fault = 0;
        if (n > 7 && plan_hit("short-read", abs)) { want = 7; fault = 1; }
        long r = raw_read(fd, buf, want);
        int e = errno;
        logev("read", "", abs, fd, r, r < 0 ? e : 0, fault);
        errno = e;
        return r;
    }
    return raw_read(fd, buf, n);
}

ssize_t write(int fd, const void *buf, size_t n) {
    init();
    if (fd >= 0 && fd < MAXFD && fd_live[fd] && under_root(fd_path[fd])) {
        const char *abs = fd_path[fd];
        if (plan_hit("write-enospc", abs)) {
            logev("write", "", abs, fd, -1, ENOSPC, 1);
            errno = ENOSPC; return -1;
        }
        if (plan_hit("write-eio", abs)) {
            logev("write", "", abs, fd, -1, EIO, 1);
            errno = EIO; return -1;
        }
        if (plan_hit("write-short-enospc", abs)) {
            if (fd_written[fd] > 0 || n < 2) {
                logev("write", "", abs, fd, -1, ENOSPC, 1);
                errno = ENOSPC; return -1;
            }
            long r = raw_write(fd, buf, n / 2);
            int e = errno;
            if (r > 0) fd_written[fd] += r;
            logev("write", "", abs, fd, r, r < 0 ? e : 0, 1);
            errno = e;
            return r;
        }
        if (plan_hit("eintr-write", abs)) {
            fd_eintr_toggle[fd] ^= 1;
            if (fd_eintr_toggle[fd]) {
                logev("write", "", abs, fd, -1, EINTR, 1);
                errno = EINTR; return -1;
            }
        }
        size_t want = n;
        int fault = 0;
        if (n > 5 && plan_hit("short-write", abs)) { want = 5; fault = 1; }
        long r = raw_write(fd, buf, want);
        int e = errno;
        if (r > 0) fd_written[fd] += r;
        logev("write", "", abs, fd, r, r < 0 ? e : 0, fault);
        errno = e;
        return r;
    }
    return raw_write(fd, buf, n);
}

int close(int fd) {
    init();
    if (fd >= 0 && fd < MAXFD && fd_live[fd]) {
        logev("close", "", fd_path[fd], fd, 0, 0, 0);
        fd_live[fd] = 0;
    }
    return (int)syscall(SYS_close, fd);
}

__asm__(".globl statx\n.set statx, shim_statx");

__attribute__((destructor)) static void fini(void) {
    if (log_fd < 0) return;
    for (int i = 0; i < nplan; i++) {
        char buf[PATH_MAX + 96];
        int n = snprintf(buf, sizeof(buf), "F|%s|%s|%d\n", plan[i].kind, plan[i].path, plan[i].fired);
        if (n > 0) raw_write(log_fd, buf, (size_t)n);
    }
}
