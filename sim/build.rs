// Supplies what /repo/src/build.rs supplies to /repo/src/main.rs and driver.rs:
// the three VERGEN_* strings and the embedded <std>/ library table.
use std::io::Write;

fn walk(f: &mut dyn Write, folder: &std::path::Path, rel: &str) {
    println!("cargo:rerun-if-changed={}", folder.to_string_lossy());
    let mut entries: Vec<_> = std::fs::read_dir(folder).unwrap().map(|e| e.unwrap().path()).collect();
    entries.sort();
    for path in entries {
        let name = path.file_name().unwrap().to_string_lossy().to_string();
        let inner = format!("{}{}", rel, name);
        if path.is_file() {
            println!("cargo:rerun-if-changed={}", path.to_string_lossy());
            writeln!(f, "\t(\"{}\", include_str!(\"{}\")),", inner, path.to_string_lossy()).unwrap();
        } else {
            walk(f, &path, &format!("{}/", inner));
        }
    }
}

fn main() {
    println!("cargo:rustc-env=VERGEN_SEMVER_LIGHTWEIGHT=UNKNOWN");
    println!("cargo:rustc-env=VERGEN_COMMIT_DATE=UNKNOWN");
    println!("cargo:rustc-env=VERGEN_TARGET_TRIPLE=x86_64-unknown-linux-gnu");
    let out_dir = std::env::var("OUT_DIR").unwrap();
    let dest = std::path::Path::new(&out_dir).join("std_files.rs");
    let mut f = std::fs::File::create(&dest).unwrap();
    writeln!(f, "pub static STD_FILES: &[(&str, &str)] = &[").unwrap();
    let repo = std::fs::canonicalize("../repo-link").expect("repo-link");
    walk(&mut f, &repo.join("std"), "<std>/");
    writeln!(f, "];").unwrap();
    println!("cargo:rerun-if-changed={}", repo.join("src/driver.rs").to_string_lossy());
    println!("cargo:rerun-if-changed={}", repo.join("src/usage_help.md").to_string_lossy());
    println!("cargo:rerun-if-changed=../repo-link");
}
