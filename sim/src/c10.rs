//! C10 (stub, filled in below)
use crate::corpus::Corpus;
use crate::replay::{Replay, Violation};
use crate::worker::Ctx;
pub fn run(_ctx: &mut Ctx, _c: &Corpus) -> Vec<Replay> { vec![] }
pub fn classify(_r: &Replay) -> Vec<Violation> { vec![] }
pub fn run_proc(_ctx: &mut Ctx, _c: &Corpus, _verif: &str) -> Vec<Replay> { vec![] }
pub fn classify_proc(_r: &Replay, _verif: &str) -> Vec<Violation> { vec![] }
