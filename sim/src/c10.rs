//! C10 — assembly is a deterministic function of its inputs. Every job of a
//! simulated run (several jobs on 1–4 threads, simulator-chosen hash keys,
//! I/O-granular interleaving, server reuse, name collisions, clock script)
//! must produce the record the same job produces alone in the canonical
//! environment (fresh thread, keys = 0, fresh server, clock t0).

use crate::cmdline;
use crate::corpus::{self, Corpus};
use crate::job::{Group, Job, Outcome, Record, Spec};
use crate::mutate;
use crate::plan::{keys_to_hex, PlanResult, SimPlan, ThreadPlan};
use crate::prng::{digest128, hex128, Rng};
use crate::replay::{Replay, Violation};
use crate::worker::Ctx;
use std::collections::BTreeMap;

pub const POOL: usize = 6000;

/// A generated program with many symbols in several scopes, several
/// instructions and (optionally) several errors: order leaks show up in the
/// symbol listings, annotated listings and diagnostics.
pub fn symbol_program(rng: &mut Rng) -> Vec<u8> {
    let mut s = String::new();
    s.push_str("#ruledef\n{\n    ld {x: u8} => 0x10 @ x\n    jmp {a: u16} => 0x20 @ a\n    nop => 0x00\n    blk {a: u16}, {b: u8} => asm {\n        first:\n        jmp {a}\n        second:\n        ld {b}\n        jmp first\n        jmp second\n    }\n}\n\n");
    let nglob = rng.range(2, 7);
    // families of names at equal edit distance from a typo (alpha/alphc,
    // beta/bets/betb, eta/zeta/beta)
    let names = if rng.chance(1, 2) { ["alpha", "beta", "gamma", "delta", "eps", "zeta", "eta", "theta"] } else { ["alpha", "alphc", "beta", "bets", "betb", "lab1", "lab2", "lab4"] };
    for g in 0..nglob {
        s.push_str(&format!("{}:\n", names[g]));
        s.push_str(&format!("    ld {}\n", g * 3 + 1));
        for l in 0..rng.range(0, 4) {
            s.push_str(&format!(".{}{}:\n", ["loop", "next", "done", "skip"][l % 4], l));
            s.push_str(&format!("    jmp {}\n", names[rng.below(nglob)]));
            if rng.chance(1, 3) {
                s.push_str(&format!("..inner{} = {}\n", l, l + 40));
            }
        }
        if rng.chance(1, 2) {
            s.push_str(&format!("{}_const = {} * 3\n", names[g], g + 2));
        }
        if rng.chance(1, 3) {
            s.push_str(&format!("    blk {}, {}\n", names[rng.below(nglob)], g + 1));
        }
    }
    if rng.chance(1, 3) {
        // several independent errors
        for _ in 0..rng.range(2, 4) {
            s.push_str(match rng.below(8) {
                0 => "    bogus 1, 2\n",
                1 => "    ld undefined_symbol\n",
                2 => "    jmp another_missing\n",
                3 => "    ld 0x1ff\n",
                // near misses of declared names (several equally close)
                4 => "    jmp alphb\n",
                5 => "    jmp bet\n",
                6 => "    ld gammma_const\n",
                _ => "    nop nop\n",
            });
        }
    }
    s.into_bytes()
}


/// Rules whose mnemonics share prefixes of different lengths (`ld{r: reg}`
/// and `ldx` live in different buckets of the prefix index) with equal
/// encoding sizes and optional constraints: ambiguity and failed-constraint
/// diagnostics then list several candidates, whose order must not depend on
/// the hash keys.
pub fn ambiguous_program(rng: &mut Rng) -> Vec<u8> {
    let mut s = String::new();
    let regs = ["x", "y", "xy", "d", "dx", "a"];
    s.push_str("#subruledef reg\n{\n");
    let nregs = rng.range(2, regs.len());
    for (i, r) in regs.iter().take(nregs).enumerate() {
        s.push_str(&format!("    {} => 0x{:x}\n", r, i + 1));
    }
    if rng.chance(1, 2) {
        // two alternatives of the subruledef spell the same text: the same
        // top-level rule then matches in several ways (nested ambiguity)
        let dup = regs[rng.below(nregs)];
        s.push_str(&format!("    {} => 0x{:x}\n", dup, 9));
        if rng.chance(1, 2) {
            s.push_str(&format!("    {} => 0x{:x}\n", dup, 10));
        }
    }
    s.push_str("}\n\n#ruledef\n{\n");
    if rng.chance(1, 3) {
        // locals whose names differ only by a leading `__`, used in an asm block
        s.push_str("    emitv {v: i8} => v\n    pair {a} =>\n    {\n        lo = a & 0x0f\n        __lo = a >> 4\n        asm { emitv {lo} }\n    }\n    pair2 {a} =>\n    {\n        __hi = a >> 4\n        hi = a & 0x0f\n        asm {\n            emitv {hi}\n            emitv {__hi}\n        }\n    }\n");
    }
    let mnems = ["ld", "ldx", "l", "ldxy", "ad", "add", "addx", "ldd"];
    let nrules = rng.range(3, 8);
    let mut rules: Vec<(&str, usize)> = Vec::new();
    for i in 0..nrules {
        let m = *rng.pick(&mnems);
        let kind = rng.below(5);
        rules.push((m, kind));
        match kind {
            0 => s.push_str(&format!("    {}{{r: reg}} => 0x{:02x} @ r`8\n", m, 0x10 + i)),
            1 => s.push_str(&format!("    {} => 0x{:02x} @ 0x00\n", m, 0x30 + i)),
            2 => s.push_str(&format!("    {} {{v: u8}} => 0x{:02x} @ v\n", m, 0x50 + i)),
            3 => s.push_str(&format!("    {}{{r: reg}} =>\n    {{\n        assert(r < {})\n        0x{:02x} @ r`8\n    }}\n", m, rng.range(1, 3), 0x70 + i)),
            _ => s.push_str(&format!("    {} {{v}} =>\n    {{\n        assert(v >= {})\n        0x{:02x} @ v`8\n    }}\n", m, rng.range(1, 200), 0x90 + i)),
        }
    }
    s.push_str("}\n\n");
    // instructions instantiate the rules, so they match at least one; when a
    // glued `ld{r}` with r = x spells another rule's mnemonic `ldx`, several
    // candidates from different prefix buckets compete
    if s.contains("pair {a}") {
        s.push_str(&format!("pair 0x{:02x}\npair2 0x{:02x}\n", 0x21 + rng.below(64), 0x12 + rng.below(64)));
    }
    for _ in 0..rng.range(1, 5) {
        let (m, kind) = *rng.pick(&rules);
        match kind {
            0 | 3 => s.push_str(&format!("{}{}\n", m, rng.pick(&regs[..nregs]))),
            1 => s.push_str(&format!("{}\n", m)),
            _ => s.push_str(&format!("{} {}\n", m, rng.below(260))),
        }
    }
    s.into_bytes()
}

/// A program spread over several included files with identical layout (each
/// starts with a same-length label at offset 0): sibling symbols then share
/// byte ranges across files, which exposes sort keys that forget the file.
pub fn multifile_symbols(rng: &mut Rng, disk: &mut crate::disk::Disk) -> String {
    let n = rng.range(2, 5);
    let dirs = ["", "inc/", "lib/"];
    let mut root = String::from("#ruledef\n{\n    put {v: u8} => v\n}\n\n");
    let names = ["aaa", "bbb", "ccc", "ddd", "eee"];
    // two programs in five carry errors (in several parts and/or the root)
    let errs = rng.chance(2, 5);
    let mut order: Vec<usize> = (0..n).collect();
    rng.shuffle(&mut order);
    for k in order {
        let path = format!("{}part{}.asm", rng.pick(&dirs), k);
        let mut body = format!("{}:\n    put {}\n.sub:\n    put {}\nval_{} = {}\n", names[k], k + 1, k + 11, names[k], k + 21);
        if errs && rng.chance(1, 2) {
            // an error of its own in this part
            body.push_str(&format!("    put missing_in_{}\n", names[k]));
        }
        disk.add_file(&path, body.into_bytes());
        root.push_str(&format!("#include \"{}\"\n", path));
    }
    if errs && rng.chance(1, 2) {
        root.push_str("    put undefined_thing\n");
    }
    disk.add_file("multi.asm", root.clone().into_bytes());
    // the same parts included in reverse order (another root of the same
    // tree: a host that assembled it earlier has opened the files in the
    // opposite order)
    let mut lines: Vec<&str> = root.lines().collect();
    let inc: Vec<&str> = lines.iter().copied().filter(|l| l.starts_with("#include")).rev().collect();
    lines.retain(|l| !l.starts_with("#include"));
    let rev = format!("{}\n{}\n", lines.join("\n"), inc.join("\n"));
    disk.add_file("multi_rev.asm", rev.into_bytes());
    "multi.asm".to_string()
}

/// A program on top of the built-in `<std>/cpu/6502.asm`, optionally with
/// errors whose diagnostics point into the library, in listing formats that
/// read spans of library files.
pub fn std_program(rng: &mut Rng) -> Vec<u8> {
    if rng.chance(1, 3) {
        // the NES platform files of the library: banks, a header and vectors
        // that come out of library files (spans into several of them)
        let mut s = String::from("#include \"<std>/platform/nes/cpu.asm\"\n#include \"<std>/platform/nes/ines_nrom.asm\"\n#include \"<std>/platform/nes/constants.asm\"\n\n");
        // (without the zero-page variable the listing starts inside the library's header file)
        let zp = rng.chance(1, 2);
        s.push_str(if zp { "#bank zeropage\nvarTimer: #res 1\n\n#bank prg\nreset:\n" } else { "varTimer = 0x10\n#bank prg\nreset:\n" });
        for _ in 0..rng.range(1, 6) {
            s.push_str(*rng.pick(&["    sei\n", "    cld\n", "    ldx #0x40\n", "    stx APU_FRMCNTR\n", "    inx\n", "    stx PPU_CTRL\n", "    lda varTimer\n", "    jmp reset\n"]));
        }
        s.push_str("nmi:\n    inc varTimer\n    rti\nirq:\n    rti\n");
        if rng.chance(1, 4) {
            s.push_str("    lda #0x1234\n");
        }
        return s.into_bytes();
    }
    let mut s = String::from("#include \"<std>/cpu/6502.asm\"\n\nstart:\n");
    // half of the programs assemble: no out-of-range operand, and `far`
    // is only branched to when it exists and is in reach
    let errs = rng.chance(1, 2);
    for _ in 0..rng.range(2, 7) {
        s.push_str(match if errs { rng.below(9) } else { *rng.pick(&[0usize, 1, 2, 3, 4, 5, 8, 8]) } {
            0 => "    lda #0x10\n",
            1 => "    sta 0x2000\n",
            2 => "    ldx #5\n",
            3 => "    inx\n",
            4 => "    jmp start\n",
            5 => "    bne start\n",
            6 => "    lda #0x1234\n",
            7 => "    bne far\n",
            _ => "    nop\n",
        });
    }
    if rng.chance(1, 3) {
        s.push_str("#res 300\nfar:\n    rts\n");
    } else if !errs && rng.chance(1, 2) {
        s.push_str("    bne near\n#res 30\nnear:\n    rts\n");
    }
    s.into_bytes()
}


/// Two to four banks with output offsets and sizes from a small set, so that
/// output ranges of *some* pairs overlap (not necessarily the last pair
/// compared), data in a subset of the banks.
pub fn bank_program(rng: &mut Rng) -> Vec<u8> {
    if rng.chance(1, 2) {
        return tidy_bank_program(rng);
    }
    let mut s = String::new();
    let names = ["low", "mid", "high", "extra"];
    let n = rng.range(2, 4);
    for i in 0..n {
        s.push_str(&format!("#bankdef {}\n{{\n    #bits 8\n    #addr {}\n", names[i], rng.pick(&["0x0", "0x10", "0x8000", "0x100"])));
        if rng.chance(4, 5) {
            s.push_str(&format!("    #size {}\n", rng.pick(&["0x4", "0x8", "0x10", "0x2", "0x4", "0x8", "0x0"])));
        }
        if rng.chance(5, 6) {
            s.push_str(&format!("    #outp 8 * {}\n", rng.pick(&["0x0", "0x4", "0x8", "0x10", "0x20", "0x2"])));
        }
        if rng.chance(1, 3) {
            s.push_str("    #fill\n");
        }
        if rng.chance(1, 6) {
            // several unrecognised fields in one block
            for f in ["#speed 3", "#mirror 1", "#colour 2", "#pages 4"].iter().take(rng.range(2, 4)) {
                s.push_str(&format!("    {}\n", f));
            }
        }
        s.push_str("}\n\n");
    }
    for i in 0..n {
        if rng.chance(2, 3) {
            s.push_str(&format!("#bank {}\n", names[i]));
            s.push_str(&format!("{}_start:\n", names[i]));
            let k = rng.range(1, 5);
            let vals: Vec<String> = (0..k).map(|j| format!("{}", i * 16 + j)).collect();
            s.push_str(&format!("#d8 {}\n", vals.join(", ")));
            if rng.chance(1, 4) {
                s.push_str("#d8 $\n");
            }
            if rng.chance(1, 5) {
                // an element that emits nothing
                s.push_str("#d \"\"\n");
            }
            // positions moved by directives that emit nothing, then a label
            // with nothing after it (possibly past the end of a sized bank)
            match rng.below(6) {
                0 => s.push_str(&format!("#align {}\n", rng.pick(&["8", "16", "32", "64", "128"]))),
                1 => s.push_str(&format!("#res {}\n", rng.pick(&["1", "2", "4", "8", "16"]))),
                2 => s.push_str(&format!("#addr {}\n", rng.pick(&["0x2", "0x4", "0x8", "0x10", "0x11"]))),
                _ => {}
            }
            if rng.chance(1, 2) {
                s.push_str(&format!("{}_end:\n", names[i]));
            }
        }
    }
    if rng.chance(1, 6) {
        // a bank of size zero that nothing is placed in, filled or not, at
        // the start of the output or further on
        s.push_str(&format!("#bankdef nothing\n{{\n    #bits 8\n    #addr {}\n    #size 0x0\n    #outp 8 * {}\n{}}}\n\n", rng.pick(&["0x0", "0x40"]), rng.pick(&["0x0", "0x0", "0x30"]), if rng.chance(2, 3) { "    #fill\n" } else { "" }));
    }
    if rng.chance(1, 4) {
        // a bank that is never written to the output (no #outp) holding only
        // things that emit nothing: labels, reservations, an empty string
        s.push_str("#bankdef ram\n{\n    #bits 8\n    #addr 0x4000\n    #size 0x20\n}\n\n#bank ram\nram_var:\n#res 2\n");
        match rng.below(3) {
            0 => s.push_str("#d \"\"\n"),
            1 => s.push_str("#ruledef\n{\n    marker => 0`0\n}\nmarker\n"),
            _ => {}
        }
        s.push_str("ram_end:\n");
    }
    s.into_bytes()
}

/// A bank layout that assembles: consecutive output ranges, data that fits,
/// banks without output holding only reservations — and now and then a bank
/// of size zero (first in the output or in the middle), filled or not. The
/// success side of bank handling (filling, listings with addresses, every
/// output format) is only reached by programs like these.
pub fn tidy_bank_program(rng: &mut Rng) -> Vec<u8> {
    let mut s = String::new();
    let names = ["low", "mid", "high", "extra"];
    let n = rng.range(1, 4);
    let mut out_off = 0usize;
    let mut layout: Vec<(usize, bool)> = Vec::new();
    let zero_at = if rng.chance(1, 3) { Some(rng.below(n + 1)) } else { None };
    for i in 0..n {
        if zero_at == Some(i) {
            s.push_str(&format!("#bankdef nothing\n{{\n    #bits 8\n    #addr {}\n    #size 0\n    #outp 8 * 0x{:x}\n{}}}\n\n", rng.pick(&["0x0", "0x40"]), out_off, if rng.chance(2, 3) { "    #fill\n" } else { "" }));
        }
        let size = *rng.pick(&[4usize, 8, 16]);
        let has_outp = rng.chance(5, 6);
        s.push_str(&format!("#bankdef {}\n{{\n    #bits 8\n    #addr {}\n    #size 0x{:x}\n", names[i], rng.pick(&["0x0", "0x10", "0x8000", "0x100"]), size));
        if has_outp {
            s.push_str(&format!("    #outp 8 * 0x{:x}\n", out_off));
            out_off += size;
            if rng.chance(1, 3) {
                s.push_str("    #fill\n");
            }
        }
        s.push_str("}\n\n");
        layout.push((size, has_outp));
    }
    if zero_at == Some(n) {
        s.push_str(&format!("#bankdef nothing\n{{\n    #bits 8\n    #addr 0x40\n    #size 0\n    #outp 8 * 0x{:x}\n{}}}\n\n", out_off, if rng.chance(2, 3) { "    #fill\n" } else { "" }));
    }
    for (i, (size, has_outp)) in layout.iter().enumerate() {
        if rng.chance(1, 4) {
            continue;
        }
        s.push_str(&format!("#bank {}\n{}_start:\n", names[i], names[i]));
        if *has_outp {
            let k = rng.range(1, (*size).min(5));
            let vals: Vec<String> = (0..k).map(|j| format!("{}", i * 16 + j)).collect();
            s.push_str(&format!("#d8 {}\n", vals.join(", ")));
            if k + 2 <= *size && rng.chance(1, 3) {
                s.push_str("#d16 $\n");
            } else if k + 1 <= *size && rng.chance(1, 3) {
                s.push_str("#res 1\n");
            }
        } else {
            s.push_str(&format!("#res {}\n", rng.range(1, *size)));
        }
        let aligned = rng.chance(1, 4);
        if aligned {
            // padding up to a boundary that may lie at or past the end of the bank
            s.push_str(&format!("#align {}\n", rng.pick(&["16", "32", "64", "128", "256"])));
        }
        if rng.chance(1, if aligned { 4 } else { 2 }) {
            s.push_str(&format!("{}_end:\n", names[i]));
        }
    }
    s.into_bytes()
}


/// Forward labels whose guessed values move between iterations, used through
/// asm blocks that forward them to constrained inner instructions, next to
/// instructions whose size depends on the operand: convergence paths where a
/// guess may fail a constraint that the converged value passes (and back).
pub fn convergence_program(rng: &mut Rng) -> Vec<u8> {
    let mut s = String::from("#ruledef\n{\n");
    let c1 = rng.below(6);
    let c2 = rng.range(1, 12);
    s.push_str(&format!("    emit {{x: u8}} =>\n    {{\n        assert(x != {})\n        0x11 @ x\n    }}\n", c1));
    s.push_str(&format!("    emitlt {{x: u8}} =>\n    {{\n        assert(x < {})\n        0x12 @ x\n    }}\n", c2));
    s.push_str("    test {x} => asm { emit {x} }\n");
    s.push_str("    testlt {x} => asm { emitlt {x} }\n");
    s.push_str("    two {x}, {y} => asm {\n        emit {x}\n        emitlt {y}\n    }\n");
    s.push_str("    ldv {x} => x < 0x10 ? 0x1`4 @ x`4 : 0x11 @ x`8\n");
    s.push_str("    ldw {x} =>\n    {\n        assert(x < 4)\n        0x20 @ x`8\n    }\n    ldw {x} =>\n    {\n        assert(x >= 4)\n        0x21 @ x`16\n    }\n}\n\n");
    let osc = rng.chance(1, 2);
    if osc {
        // an asm block whose own labels move between its passes (sizes chosen
        // by asserts on the label values): several labels can still be moving
        // when the block gives up
        s = s.replacen("}\n\n", "", 1);
        s.push_str("    ldo {x} =>\n    {\n        assert(x <= 0x8)\n        0x11 @ x`16\n    }\n    ldo {x} =>\n    {\n        assert(x > 0x8)\n        0x22 @ x`8\n    }\n    osc => asm {\n");
        let nlab = rng.range(2, 3);
        let names = ["first", "second", "third"];
        for _ in 0..rng.range(2, 5) {
            s.push_str(&format!("        ldo {}\n", names[rng.below(nlab)]));
        }
        for l in names.iter().take(nlab) {
            s.push_str(&format!("        {}:\n", l));
        }
        s.push_str("    }\n}\n\n");
    }
    let labels = ["la", "lb", "lc", "ld_", "le"];
    let nl = rng.range(2, 5);
    let n = rng.range(2, 7);
    let mut placed = 0;
    for i in 0..n {
        let l = labels[rng.below(nl)];
        let l2 = labels[rng.below(nl)];
        match rng.below(7) {
            0 => s.push_str(&format!("test {}\n", l)),
            1 => s.push_str(&format!("testlt {}\n", l)),
            2 => s.push_str(&format!("ldv {}\n", l)),
            3 => s.push_str(&format!("ldw {}\n", l)),
            4 => s.push_str(&format!("two {}, {}\n", l, l2)),
            5 => s.push_str(&format!("emit {}\n", l)),
            _ => s.push_str(&format!("#d8 {}\n", i + 1)),
        }
        if placed < nl && rng.chance(1, 3) {
            s.push_str(&format!("{}:\n", labels[placed]));
            placed += 1;
        }
    }
    if osc {
        s.push_str("osc\n");
    }
    while placed < nl {
        s.push_str(&format!("{}:\n", labels[placed]));
        placed += 1;
        if rng.chance(1, 2) {
            s.push_str("#d8 0xee\n");
        }
    }
    s.into_bytes()
}

/// A branch-relaxation program whose `asm` blocks share names with the global
/// scope: one block *declares* a label that another block (and the program)
/// knows as a global, and a jump sits on the short/long boundary, so the very
/// first guess of an iteration can decide the bytes. Whatever survives of one
/// assembly's block-local tables into the next shows here (with
/// `--debug-iters` even when the bytes agree).
pub fn asm_shadow_program(rng: &mut Rng) -> Vec<u8> {
    let names = ["mid", "la", "first", "val", "x", "loop"];
    let n1 = names[rng.below(names.len())];
    let n2 = names[rng.below(names.len())];
    let mut s = String::from("#ruledef\n{\n");
    s.push_str("    jmp {a} => { assert(a <  0x80), 0x10 @ a`8  }\n    jmp {a} => { assert(a >= 0x80), 0x11 @ a`16 }\n");
    s.push_str("    ldi {a} => { assert(a >= 0x80), 0x20 }\n    ldi {a} => { assert(a <  0x80), 0x21 @ a`8 @ 0x00 }\n");
    s.push_str(&format!("    usegl => asm {{ ldi {} }}\n", n1));
    s.push_str(&format!("    usegl2 => asm {{\n        ldi {}\n        jmp {}\n    }}\n", n2, n1));
    s.push_str(&format!("    decl => asm\n    {{\n        {}:\n        jmp {}\n    }}\n", n1, n1));
    if n2 != n1 {
        s.push_str(&format!("    decl2 => asm\n    {{\n        ldi {}\n        {}:\n        {}:\n        jmp {}\n    }}\n", n1, n2, n1, n2));
    }
    s.push_str("}\n\n");
    if rng.chance(1, 2) {
        s.push_str("    jmp end\n");
    }
    s.push_str(&format!("{}:\n", n1));
    s.push_str(if rng.chance(2, 3) { "    usegl\n" } else { "    usegl2\n" });
    if n2 != n1 {
        s.push_str(&format!("{}:\n", n2));
        if rng.chance(1, 2) {
            s.push_str("    usegl2\n");
        }
    }
    s.push_str(&format!("    #res 0x{:x}\n", rng.range(0x70, 0x80)));
    s.push_str("end:\n    #d8 0xff\n");
    if rng.chance(2, 3) {
        s.push_str(&format!("    #res 0x{:x}\n    decl\n", rng.range(1, 0x30)));
        if n2 != n1 && rng.chance(1, 2) {
            s.push_str("    decl2\n");
        }
    }
    if rng.chance(1, 3) {
        s.push_str("    jmp end\n");
    }
    s.into_bytes()
}

/// The *failing twin* of a job: the same tree, names and command line with
/// one error injected into the root file at a seeded place and stage
/// (syntax, matching, inside an `asm` block after its labels, last-pass
/// resolution, `#assert`). Run right before the job on the same thread it is
/// the history most likely to leave something behind that the job can meet:
/// every name, handle and size agrees.
pub fn failing_twin(rng: &mut Rng, job: &Job) -> Option<Job> {
    let spec = job.spec.as_ref()?;
    if spec.roots.len() != 1 {
        return None;
    }
    let path = format!("{}/{}", corpus::PROJ, spec.roots[0]);
    let text = match job.disk.nodes.get(&path) {
        Some(crate::disk::Node::File(d)) => String::from_utf8(d.clone()).ok()?,
        _ => return None,
    };
    let mut lines: Vec<String> = text.lines().map(|l| l.to_string()).collect();
    // closing lines of asm blocks (a line holding only "}" after a line that
    // mentions "asm"), found textually: good enough for generated programs
    let mut asm_closers: Vec<usize> = Vec::new();
    let mut in_asm = false;
    for (i, l) in lines.iter().enumerate() {
        if l.contains("asm") && !l.contains('}') {
            in_asm = true;
        } else if in_asm && l.trim() == "}" {
            asm_closers.push(i);
            in_asm = false;
        }
    }
    let kind = rng.below(8);
    let what;
    match kind {
        0 | 1 | 2 if !asm_closers.is_empty() => {
            let at = asm_closers[rng.below(asm_closers.len())];
            lines.insert(at, "        qq_no_such_instruction 1".to_string());
            what = "asm-block";
        }
        3 => {
            lines.push("qq_no_such_instruction 1".to_string());
            what = "no-match";
        }
        4 => {
            lines.push("#d8 qq_no_such_symbol".to_string());
            what = "unknown-symbol";
        }
        5 => {
            lines.push("#assert 1 == 0".to_string());
            what = "assert";
        }
        6 => {
            lines.push("#d8 (".to_string());
            what = "syntax";
        }
        _ => {
            let at = rng.below(lines.len() + 1);
            lines.insert(at, "#d8 1 / 0".to_string());
            what = "div-zero";
        }
    }
    let mut twin = job.clone();
    let mut t = lines.join("\n");
    t.push('\n');
    twin.disk.add_file(&spec.roots[0], t.into_bytes());
    twin.name = format!("failing-twin[{}]({})", what, job.name);
    Some(twin)
}

/// A program of several hundred instructions with a few that match no rule,
/// far apart: whatever processes instructions in chunks (or in parallel)
/// must still report in source order.
pub fn big_program(rng: &mut Rng) -> Vec<u8> {
    let mut s = String::from("#ruledef\n{\n    op {v: u8} => 0x10 @ v\n    nop => 0x00\n    jp {a: u16} => 0x20 @ a\n}\n\ntop:\n");
    let n = rng.range(260, 700);
    // (sometimes exactly 256 unmatched instructions: a diagnostics count
    // that is a multiple of 256 must not turn into exit status 0)
    let nbad = if rng.chance(1, 4) { 256 } else { rng.range(2, 5) };
    let n = if nbad == 256 { n.max(300) } else { n };
    let mut bad: Vec<usize> = if nbad == 256 { (0..256).collect() } else { (0..nbad).map(|_| rng.below(n)).collect() };
    bad.sort();
    for i in 0..n {
        if bad.contains(&i) {
            s.push_str(&format!("    bogus{} {}\n", i % 7, i % 251));
        } else {
            match i % 5 {
                0 => s.push_str("    nop\n"),
                1 => s.push_str("    jp top\n"),
                _ => s.push_str(&format!("    op {}\n", i % 256)),
            }
        }
    }
    s.into_bytes()
}


/// A program assembled from small blocks, one per language feature (typed
/// rule arguments, cascading rules with asserts, subruledefs, functions,
/// constants and nested labels, #if/#elif/#else, banks, data directives,
/// #res/#align/#addr, asm blocks, string encodings, sizeof/le, #const(noemit),
/// #assert, slices and concatenation), drawn and ordered at random, with an
/// occasional injected error. Each block suffixes its names with its index,
/// so any combination is well-formed; the point is to meet features in
/// combinations no single test of the corpus has.
pub fn feature_mix_program(rng: &mut Rng) -> Vec<u8> {
    let mut s = String::new();
    let banked = rng.chance(1, 3);
    if banked {
        s.push_str(&format!("#bankdef main\n{{\n    #addr {}\n    #size 0x800\n    #outp 0\n{}}}\n\n", rng.pick(&["0x0", "0x100", "0x8000"]), if rng.chance(1, 4) { "    #fill\n" } else { "" }));
        if rng.chance(1, 3) {
            s.push_str("#bankdef aux\n{\n    #addr 0x0\n    #size 0x40\n    #outp 8 * 0x800\n}\n\n#bank main\n");
        }
    }
    let nblocks = rng.range(2, 7);
    let mut used: Vec<usize> = Vec::new();
    // half of the programs avoid the blocks and values that are errors by
    // construction (the success side needs programs that assemble)
    let clean = rng.chance(1, 2);
    for i in 0..nblocks {
        // (block 16, addresses beyond 16 bits, a little more often)
        let mut kind = if rng.chance(1, 12) { 16 } else { rng.below(25) };
        if clean && banked && kind == 16 {
            kind = 4;
        }
        used.push(kind);
        match kind {
            0 => {
                s.push_str(&format!("#ruledef r{i}\n{{\n    mv{i} {{a: u8}}, {{b: s8}} => 0x1{i} @ a @ b\n    halt{i} => 0x4{i}\n}}\nmv{i} {}, {}\nhalt{i}\n", rng.below(256), rng.below(100) as i64 - 50, i = i));
            }
            1 => {
                // cascading rules choosing a size through asserts, forward label
                s.push_str(&format!("#ruledef\n{{\n    jr{i} {{t}} =>\n    {{\n        rel = t - $ - 2\n        assert(rel <= 127)\n        assert(rel >= -128)\n        0x2{i} @ rel`8\n    }}\n    jr{i} {{t}} => 0x3{i} @ t`16\n}}\njr{i} fwd{i}\n{}fwd{i}:\n", if rng.chance(1, 3) { "#res 200\n" } else { "#d8 0\n" }, i = i));
            }
            2 => {
                s.push_str(&format!("#subruledef reg{i}\n{{\n    a => 0x00\n    b => 0x01\n    [{{x: u8}}] => 0x80 | x\n}}\n#ruledef\n{{\n    ldr{i} {{r: reg{i}}}, {{v: i8}} => 0x5{i} @ r`8 @ v\n}}\nldr{i} {}, {}\n", rng.pick(&["a", "b", "[3]", "[0x7f]"]), rng.below(200) as i64 - 100, i = i));
            }
            3 => {
                s.push_str(&format!("#fn dbl{i}(x) => x * 2\n#fn add{i}(x, y) => dbl{i}(x) + y\n#d8 add{i}({}, {})\n", rng.below(20), rng.below(20), i = i));
            }
            4 => {
                s.push_str(&format!("c{i} = {} + {i}\nglob{i}:\n#d8 c{i}\n.loc:\n#d8 .loc - glob{i}\n..deep = 7\n#d8 glob{i}.loc.deep\n", rng.below(30), i = i));
            }
            5 => {
                s.push_str(&format!("k{i} = {}\n#if k{i} > 3\n{{\n    #d8 1\n    inner{i} = 10\n}}\n#elif k{i} == 3\n{{\n    #d8 2\n    inner{i} = 20\n}}\n#else\n{{\n    #d8 3\n    inner{i} = 30\n}}\n#d8 inner{i}\n", rng.below(7), i = i));
            }
            6 => {
                s.push_str(&format!("#d8 1, 2, 0x03\n#d16 0x12{i}4\n#d \"ab\"\n#d 0x12 @ 0x34\n#d le(0x1234)\n#d32 {}\n", rng.below(100000), i = i % 10));
            }
            7 => {
                s.push_str(&format!("#res {}\n#align {}\npast{i}:\n#d8 past{i}`8\n", rng.range(1, 9), rng.pick(&["8", "16", "32", "64"]), i = i));
            }
            8 => {
                s.push_str(&format!("#ruledef\n{{\n    emitb{i} {{v: u8}} => v\n    twice{i} {{x: u8}} => asm\n    {{\n        emitb{i} {{x}}\n        here:\n        emitb{i} here`8\n    }}\n}}\ntwice{i} {}\n", rng.below(256), i = i));
            }
            9 => {
                s.push_str(&format!("#d utf8(\"h\u{e9}\")\n#d ascii(\"hi{i}\")\n#d utf16be(\"a\")\n#d utf32le(\"z\")\n", i = i));
            }
            10 => {
                s.push_str(&format!("#ruledef\n{{\n    sz{i} {{x}} => (sizeof(x) > 8 ? 0xff : 0x00) @ x @ sizeof(x)`8\n}}\nsz{i} {}\n", rng.pick(&["0x12", "0x1234", "0`0", "0x0"]), i = i));
            }
            11 => {
                s.push_str(&format!("#const(noemit) hidden{i} = {}\n#const shown{i} = hidden{i} + 1\n#d8 shown{i}\n#assert shown{i} == hidden{i} + 1\n", rng.below(200), i = i));
            }
            12 => {
                s.push_str(&format!("w{i} = 0x1234\n#d8 w{i}[7:0]\n#d8 w{i}[15:8]\n#d (w{i}[3:0] @ 0b1010)`8\n#d8 (w{i} >> 4)`8\n#d8 w{i} % 7 == 0 ? 1 : 0\n", i = i));
            }
            14 => {
                // an asm block with a {local} substitution inside a constant
                // definition / #assert (no instruction around it)
                let target = if rng.chance(1, 3) { "nosuchinstr" } else { "emitc" };
                s.push_str(&format!("#ruledef\n{{\n    emitc{i} {{v: u8}} => v\n}}\nval{i} =\n{{\n    y = {}\n    asm {{ {}{i} {{y}} }}\n}}\n#d8 val{i}\n", rng.below(200), target, i = i));
                if rng.chance(1, 2) {
                    s.push_str(&format!("#assert {{ z = 1, asm {{ {}{i} {{z}} }} }} == 1\n", target, i = i));
                }
            }
            15 => {
                // a constant whose expression carries its own assert and depends
                // on a label / $ (only the full resolver can evaluate it)
                s.push_str(&format!("chk{i} =\n{{\n    assert(end{i} <= {}, \"program too large\")\n    end{i}\n}}\n#d8 1, 2, 3\nend{i}:\n", rng.pick(&["1", "2", "0x10", "0x1000", "0x100000"]), i = i));
                if rng.chance(1, 2) {
                    s.push_str(&format!("#d8 chk{i}`8\n", i = i));
                }
            }
            17 => {
                // a rule with several parameters whose asm block misspells one
                // of its {substitutions}
                let typo = !clean && rng.chance(1, 2);
                s.push_str(&format!("#ruledef\n{{\n    put3{i} {{v: u8}} => v\n    mv3{i} {{dst: u8}}, {{src: u8}}, {{imm: u8}} => asm\n    {{\n        put3{i} {{dst}}\n        put3{i} {{{}}}\n        put3{i} {{imm}}\n    }}\n}}\nmv3{i} 1, 2, 3\n", if typo { "scr" } else { "src" }, i = i));
            }
            19 => {
                // functions as values: a constant bound to a built-in and
                // called through it; user functions with everyday names
                let b = *rng.pick(&["le", "utf8", "sizeof", "ascii"]);
                s.push_str(&format!("fnval{i} = {}\n#d fnval{i}({})`16\n", b, if b == "utf8" || b == "ascii" { "\"ab\"".to_string() } else { format!("0x{:x}`16", rng.below(0xffff)) }, i = i));
                if !s.contains("#fn abs(") && rng.chance(1, 2) {
                    s.push_str(&format!("#fn abs(v) => v < 0 ? -v : v\n#fn sign(v) => v < 0 ? -1 : 1\n#fn min(a, b) => a < b ? a : b\n#fn max(a, b) => a < b ? b : a\n#d8 abs({}), sign({})`8, min({}, 7), max(3, {})\n", rng.below(40) as i64 - 20, rng.below(40) as i64 - 20, rng.below(20), rng.below(20)));
                }
            }
            20 => {
                // several typed arguments, a subset of them out of range
                let vals: Vec<String> = (0..3).map(|_| if clean { rng.pick(&["0x1", "0x7", "0xf", "3"]).to_string() } else { rng.pick(&["0x10", "0x100", "0x200", "0x7", "300", "-1"]).to_string() }).collect();
                s.push_str(&format!("#ruledef\n{{\n    mv4{i} {{a: u8}}, {{b: u8}}, {{c: u4}} => a @ b @ c @ 0x0`4\n}}\nmv4{i} {}\n", vals.join(", "), i = i));
            }
            21 => {
                // every candidate fails, each with its own message
                s.push_str(&format!("#ruledef\n{{\n    op5{i} {{v}} =>\n    {{\n        assert(v < 10, \"too big for the short form\")\n        0x10 @ v`8\n    }}\n    op5{i} {{v}} =>\n    {{\n        assert(v > 1000, \"too small for the long form\")\n        0x11 @ v`16\n    }}\n    op5{i} {{v: u4}} => 0x12 @ v @ 0x0`4\n    op5{i} {{v}} =>\n    {{\n        assert(v > 1000, \"too small for the long form\")\n        0x13 @ v`16\n    }}\n}}\nop5{i} {}\n", if clean { rng.pick(&["5", "7", "5"]) } else { rng.pick(&["500", "5", "2000", "12", "100"]) }, i = i));
            }
            23 if !clean => {
                // an asm block with several different invalid declarations
                let decls = ["        x{i} = 1\n", "        .y{i}:\n", "        #d8 1\n", "        z{i} = 2\n", "        .w{i}:\n"];
                let mut body = String::new();
                for k in 0..rng.range(2, 4) {
                    body.push_str(&decls[(k + rng.below(2)) % decls.len()].replace("{i}", &i.to_string()));
                }
                s.push_str(&format!("#ruledef\n{{\n    nop6{i} => 0x00\n    bad6{i} => asm\n    {{\n{}        nop6{i}\n    }}\n}}\nbad6{i}\n", body, i = i));
            }
            24 if !clean => {
                // a rule pattern that repeats parameter names
                s.push_str(&format!("#ruledef\n{{\n    add7{i} {{dst}}, {{dst}}, {{src}}, {{src}} => 0x70 @ dst`8 @ src`8\n}}\nadd7{i} 1, 1, 2, 2\n", i = i));
            }
            22 if !clean && !banked => {
                // a function where only a settled value can stand: a bank
                // field, an #if condition (diagnosed, never a crash)
                if rng.chance(1, 2) {
                    s.push_str(&format!("#fn base{i}() => 0x100\n#bankdef late{i}\n{{\n    #addr base{i}()\n    #size 0x10\n    #outp 8 * 0x1000\n}}\n", i = i));
                } else {
                    s.push_str(&format!("#fn flag{i}() => 1 == 1\n#if flag{i}()\n{{\n    #d8 {}\n}}\n", rng.below(200), i = i));
                }
            }
            16 => {
                // addresses beyond 16 bits (formats with an address field)
                s.push_str(&format!("#addr {}\nhigh{i}:\n#d8 0x5a, high{i}`8\n", rng.pick(&["0x10000", "0xffff", "0x12345", "0x10002"]), i = i));
            }
            _ => {
                if banked && rng.chance(1, 2) {
                    s.push_str("#addr $ + 4\n");
                }
                s.push_str(&format!("tail{i}:\n#d8 tail{i}`8, $`8\n", i = i));
            }
        }
    }
    if !clean && rng.chance(1, 3) {
        s.push_str(match rng.below(7) {
            0 => "#d8 undefined_name\n",
            1 => "#d8 300\n",
            2 => "#assert 1 == 2\n",
            3 => "#d8 1 / 0\n",
            4 => "unknown_instruction 1, 2\n",
            5 => "#d8 \"too long\"\n",
            _ => "#bank nowhere\n",
        });
    }
    if banked && s.contains("#bankdef aux") && rng.chance(1, 2) {
        s.push_str("#bank aux\n#d8 0xaa, 0xbb\n");
    }
    let _ = used;
    s.into_bytes()
}

/// Job `k` of the pool for this seed: a pure function of (seed, k).
pub fn pool_job(seed: u64, k: usize, c: &Corpus) -> Job {
    let mut rng = Rng::new(seed).fork_n("c10-pool", k as u64);
    let kind = rng.below(112);
    if kind >= 100 {
        // an inclusion-heavy case of the C14 generator (includes, #once,
        // inclusion functions through rules/functions/asm blocks): the same
        // file names recur across jobs with different content, which is what
        // a cache outliving its assembly would trip over
        let mut case = crate::c14::draw_case(&mut rng);
        case.fault = None;
        let mut job = case.render();
        job.name = format!("c14case:{}", k);
        return job;
    }
    if kind < 35 {
        // corpus root with its own command line, random knobs
        let ridx = rng.below(c.roots.len());
        let mut job = corpus::corpus_job(c, ridx);
        if let Some(spec) = job.spec.as_mut() {
            cmdline::draw_knobs(&mut rng, spec);
            if rng.chance(1, 2) {
                let f = *rng.pick(&["symbols", "mesen-mlb", "annotated", "addrspan", "tcgame", "hexdump"]);
                spec.groups.push(Group { format: Some(f.to_string()), out: Some(format!("extra.{}", if f == "mesen-mlb" { "mlb" } else { "txt" })), print: rng.chance(1, 4) });
            }
            job.argv = spec.render();
        }
        job
    } else if kind < 55 {
        // generated command line (several unknown parameters, defines, groups)
        crate::c03::draw_job(&mut rng.fork("cmd"), c)
    } else if kind < 80 {
        // generated programs: many symbols / ambiguous prefixes / several
        // files with identical layout / on top of the built-in library
        let mut disk = crate::disk::Disk::new(corpus::PROJ);
        let root = match rng.below(18) {
            16 | 17 => {
                disk.add_file("shadow.asm", asm_shadow_program(&mut rng));
                "shadow.asm".to_string()
            }
            12 | 13 | 14 | 15 => {
                disk.add_file("mix.asm", feature_mix_program(&mut rng));
                "mix.asm".to_string()
            }
            8 => {
                disk.add_file("banks.asm", bank_program(&mut rng));
                "banks.asm".to_string()
            }
            9 | 10 => {
                disk.add_file("conv.asm", convergence_program(&mut rng));
                "conv.asm".to_string()
            }
            11 => {
                if rng.chance(1, 3) {
                    disk.add_file("big.asm", big_program(&mut rng));
                    "big.asm".to_string()
                } else {
                    disk.add_file("conv.asm", convergence_program(&mut rng));
                    "conv.asm".to_string()
                }
            }
            0 | 1 | 2 => {
                disk.add_file("prog.asm", symbol_program(&mut rng));
                "prog.asm".to_string()
            }
            3 | 4 => {
                disk.add_file("ambig.asm", ambiguous_program(&mut rng));
                "ambig.asm".to_string()
            }
            5 | 6 => multifile_symbols(&mut rng, &mut disk),
            _ => {
                disk.add_file("on_std.asm", std_program(&mut rng));
                "on_std.asm".to_string()
            }
        };
        let mut spec = Spec::simple(&root);
        spec.groups.clear();
        for _ in 0..rng.range(1, 3) {
            let f = if rng.chance(1, 6) { cmdline::draw_good_format(&mut rng) } else { rng.pick(&["symbols", "mesen-mlb", "annotated", "annotatedbin", "addrspan", "tcgame", "binary", "intelhex"]).to_string() };
            let n = spec.groups.len();
            spec.groups.push(Group { format: Some(f.to_string()), out: if rng.chance(2, 3) { Some(format!("out{}.txt", n)) } else { None }, print: rng.chance(1, 5) });
        }
        if root == "prog.asm" {
            for _ in 0..(if rng.chance(1, 3) { rng.range(1, 2) } else { 0 }) {
                spec.defines.push(format!("{}={}", rng.pick(&["alpha_const", "beta_const", "UNUSED1", "UNUSED2", "zeta_const"]), rng.below(9)));
            }
        }
        cmdline::draw_knobs(&mut rng, &mut spec);
        if rng.chance(1, 12) {
            // an output whose directory does not exist (the write fails after a
            // good assembly: what the failure says must not depend on the
            // environment either), mostly as the last group
            let n = spec.groups.len();
            let gi = if rng.chance(2, 3) { n - 1 } else { 0 };
            spec.groups[gi].out = Some(rng.pick(&["nodir/out.bin", "nodir/deeper/out.txt", "prog.asm/out.bin"]).to_string());
            spec.groups[gi].print = false;
        }
        let mut job = Job::from_spec(&format!("genprog:{}:{}", root, k), disk, spec);
        if root != "on_std.asm" && rng.chance(1, 8) {
            // a host that registers no built-in library at all (the
            // program's own root file then gets the lowest handle)
            job.use_std = false;
        }
        job
    } else {
        // mutant (diagnostics in odd places)
        let mut j = crate::c03::draw_job(&mut rng.fork("mut"), c);
        if !j.name.starts_with("mutant") {
            let ridx = rng.below(c.roots.len());
            j = corpus::corpus_job(c, ridx);
            let (ii, root) = &c.roots[ridx];
            if let Some(t) = c.images[*ii].text_of(root) {
                let m = mutate::draw(&mut rng, t, &c.texts);
                let candidate = mutate::apply(t, &m);
                if !mutate::magnitude_risky(t, &candidate) {
                    j.disk.add_file(root, candidate);
                    j.name = format!("mutant:{}/{}:{:?}", c.images[*ii].label, root, m);
                }
            }
        }
        j
    }
}

/// What must be identical across environments.
/// `--debug-iters` prints values in their Debug form, and a span's Debug form
/// shows the file-handle number (`Span(file#4[155..196])`). The handle table
/// belongs to the file server the caller passes in — an *input* of the
/// library call, which the handle-layout dimension varies on purpose — so
/// the number itself is not compared.
pub fn mask_file_handles(s: &str) -> String {
    let mut out = String::with_capacity(s.len());
    let mut rest = s;
    while let Some(i) = rest.find("file#") {
        out.push_str(&rest[..i + 5]);
        rest = &rest[i + 5..];
        let digits = rest.chars().take_while(|c| c.is_ascii_digit()).count();
        if digits > 0 {
            out.push('_');
        }
        rest = &rest[digits..];
    }
    out.push_str(rest);
    out
}

pub fn fields(rec: &Record) -> Vec<(String, String)> {
    let mut f = Vec::new();
    f.push(("outcome".to_string(), format!("{:?}", rec.outcome)));
    f.push(("stdout".to_string(), mask_file_handles(&String::from_utf8_lossy(&rec.stdout))));
    f.push(("stderr".to_string(), String::from_utf8_lossy(&rec.stderr).to_string()));
    let w: Vec<String> = rec.writes.iter().map(|w| format!("{}|{}|{}", w.spelling, hex128(digest128(&w.data)), w.complete)).collect();
    f.push(("writes".to_string(), format!("{:?}", w)));
    f.push(("lib.state".to_string(), format!("ran={} panic={:?} error={} output={} report_errors={} iterations={:?} bits={}", rec.lib.ran, rec.lib.panic, rec.lib.error, rec.lib.has_output, rec.lib.report_has_errors, rec.lib.iterations, rec.lib.bits_len)));
    for (name, d) in &rec.lib.formats {
        f.push((format!("format:{}", name), d.clone()));
    }
    f.push(("lib.diagnostics".to_string(), rec.lib.diag_plain.clone()));
    f.push(("lib.diagnostics-colour".to_string(), rec.lib.diag_color_digest.clone()));
    f
}

pub fn compare(job: &Job, reference: &Record, got: &Record, env: &str) -> Vec<Violation> {
    let mut v = Vec::new();
    let a = fields(reference);
    let b = fields(got);
    let bm: BTreeMap<&String, &String> = b.iter().map(|(k, x)| (k, x)).collect();
    for (k, x) in &a {
        match bm.get(k) {
            Some(y) if *y == x => {}
            other => {
                let class_field = if k.starts_with("format:") { "format".to_string() } else { k.clone() };
                v.push(Violation::new(
                    &format!("divergence:{}", class_field),
                    format!("job {} argv={:?}: `{}` differs from the canonical environment under [{}]\n--- canonical\n{}\n--- this environment\n{}", job.name, job.argv, k, env, crate::orch::truncate(x, 700), crate::orch::truncate(other.map(|s| s.as_str()).unwrap_or("<absent>"), 700)),
                ));
                break;
            }
        }
    }
    if a.len() != b.len() && v.is_empty() {
        v.push(Violation::new("divergence:shape", format!("job {}: record shapes differ", job.name)));
    }
    v
}

pub fn sensitive_items(job: &Job, rec: &Record) -> usize {
    let params: usize = job.argv.iter().map(|a| a.matches(',').count()).sum();
    let defines = job.argv.iter().filter(|a| *a == "-d").count();
    rec.lib.symbol_count + rec.error_lines() + params + defines
}

fn reference_plan(job: &Job) -> SimPlan {
    SimPlan::single(job.clone(), vec![], &[0u8; 16], true, true)
}

/// The canonical environment is a *fresh process*: the job alone, first and
/// only assembly of that process, keys = 0, fresh server, clock t0. (A
/// reference computed inside the long-lived worker would share whatever
/// process-wide state an earlier assembly initialised — a `OnceLock` table
/// built from the first caller's parameters — and could not see it.)
/// `sim ref-record` executes the reference plan and prints the record.
pub fn reference_record(job: &Job, tmpdir: &str) -> Option<Record> {
    use std::io::Write;
    let exe = std::env::current_exe().ok()?;
    let mut child = std::process::Command::new(exe)
        .arg("ref-record")
        .stdin(std::process::Stdio::piped())
        .stdout(std::process::Stdio::piped())
        .stderr(std::process::Stdio::null())
        .spawn()
        .ok()?;
    {
        let mut stdin = child.stdin.take()?;
        let _ = stdin.write_all(serde_json::to_string(job).ok()?.as_bytes());
    }
    let out = child.wait_with_output().ok()?;
    let _ = tmpdir;
    let text = String::from_utf8_lossy(&out.stdout);
    for line in text.lines() {
        if let Some(rest) = line.strip_prefix("RECORD ") {
            return serde_json::from_str::<Record>(rest).ok();
        }
    }
    None
}

/// Several assemblies in one process through the real `FileServerReal`:
/// a job, a same-names-different-content variant, the first job again.
pub fn build_realfs_plan(rng: &mut Rng, seed: u64, c: &Corpus) -> SimPlan {
    let mut jobs: Vec<Job> = Vec::new();
    let mut tries = 0;
    if rng.chance(1, 6) {
        // one untouched tree assembled two or three times with different
        // `-d` values into the same output file: same size, other bytes
        let mut disk = crate::disk::Disk::new(corpus::PROJ);
        disk.add_file("defs.asm", format!("val = 0\nother = 1\n#d8 val, val + {}, 0x55\n#d16 other\n", rng.below(9)).into_bytes());
        let fmt = *rng.pick(&["binary", "hexstr", "annotated", "intelhex", "binary"]);
        for _ in 0..rng.range(2, 3) {
            let mut spec = Spec::simple("defs.asm");
            spec.quiet = true;
            spec.defines = vec![format!("val={}", rng.range(1, 9)), format!("other={}", rng.range(1, 9))];
            spec.groups = vec![Group { format: Some(fmt.to_string()), out: Some("out.bin".to_string()), print: false }];
            jobs.push(Job::from_spec("genprog:defs.asm:redefined", disk.clone(), spec));
        }
        tries = 40;
    }
    while jobs.len() < 2 && tries < 40 {
        tries += 1;
        let a = pool_job(seed, rng.below(POOL), c);
        let b = pool_job(seed, rng.below(POOL), c);
        if crate::procsim::materialisable(&a).is_err() {
            continue;
        }
        if let (Some(sa), Some(sb)) = (&a.spec, &b.spec) {
            if sa.roots.len() == 1 && sb.roots.len() == 1 {
                if let Some(crate::disk::Node::File(d)) = b.disk.nodes.get(&format!("{}/{}", corpus::PROJ, sb.roots[0])) {
                    // same names, different content: only the root file's text changes
                    let mut variant = a.clone();
                    variant.disk.add_file(&sa.roots[0], d.clone());
                    variant.name = format!("collision-same-name({} <- {})", a.name, b.name);
                    jobs.push(a.clone());
                    if rng.chance(1, 2) {
                        // the same tree assembled again with another command
                        // line into the same output names: no input changes,
                        // the outputs must
                        let mut other = a.clone();
                        let mut spec = sa.clone();
                        let what = match rng.below(4) {
                            0 if !spec.defines.is_empty() => {
                                let d = spec.defines[0].clone();
                                let name = d.split('=').next().unwrap_or("x").to_string();
                                spec.defines[0] = format!("{}={}", name, rng.range(10, 99));
                                "define"
                            }
                            1 => {
                                let g = spec.groups.len().saturating_sub(1);
                                if let Some(gr) = spec.groups.get_mut(g) {
                                    if gr.out.is_none() && !gr.print {
                                        gr.out = Some("retarget.out".to_string());
                                    }
                                    gr.format = Some(rng.pick(&["hexstr", "binstr", "annotated", "hexdump", "symbols", "binary"]).to_string());
                                }
                                "format"
                            }
                            2 => {
                                spec.no_opt_static = !spec.no_opt_static;
                                spec.quiet = !spec.quiet;
                                "knobs"
                            }
                            _ => {
                                spec.groups.reverse();
                                "group-order"
                            }
                        };
                        other.argv = spec.render();
                        other.spec = Some(spec);
                        other.name = format!("retargeted[{}]({})", what, a.name);
                        if crate::procsim::materialisable(&other).is_ok() {
                            jobs.push(other);
                        }
                    }
                    jobs.push(variant);
                    if rng.chance(1, 2) {
                        jobs.push(a.clone());
                        if rng.chance(1, 2) {
                            // the same job twice in a row: the one situation in
                            // which the server object itself may be reused
                            jobs.push(a.clone());
                        }
                    }
                }
            }
        }
    }
    if jobs.is_empty() {
        jobs.push(pool_job(seed, 0, c));
    }
    let n = jobs.len();
    let keys = rng.bytes16();
    let reuse: Vec<bool> = (0..n).map(|_| rng.chance(1, 2)).collect();
    SimPlan { faults: vec![vec![]; n], jobs, threads: vec![ThreadPlan { keys: keys_to_hex(&keys), jobs: (0..n).collect(), reuse, offsets: vec![] }], schedule: vec![], sched_seed: None, switch_16: 0, clock: vec![], lib_pass: false, all_formats: false, realfs: true, env: vec![], clock_tick_ns: 0 }
}

/// Environment variables a terminal, a CI system or a packaging script may
/// set; the canonical environment has none of them.
pub fn draw_env(rng: &mut Rng) -> Vec<(String, String)> {
    let mut v = Vec::new();
    if rng.chance(1, 2) {
        return v;
    }
    for _ in 0..rng.range(1, 4) {
        let k = *rng.pick(crate::plan::ENV_NAMES);
        let val = *rng.pick(&["1", "0", "", "dumb", "xterm-256color", "40", "C", "en_US.UTF-8", "tr_TR.UTF-8", "UTC", "Asia/Tokyo", "/nonexistent", "-q", "315532800"]);
        if !v.iter().any(|(x, _): &(String, String)| x == k) {
            v.push((k.to_string(), val.to_string()));
        }
    }
    v
}

pub fn build_plan(rng: &mut Rng, seed: u64, c: &Corpus) -> SimPlan {
    if rng.chance(1, 8) {
        return build_realfs_plan(rng, seed, c);
    }
    if rng.chance(1, 16) {
        // directed pair on one thread and one reused server: the same tree
        // assembled first from its reversed root, then from its ordinary
        // root (the files were opened in the opposite order before)
        let mut disk = crate::disk::Disk::new(corpus::PROJ);
        let root = multifile_symbols(rng, &mut disk);
        let mut spec = Spec::simple(&root);
        spec.quiet = true;
        let job = Job::from_spec(&format!("genprog:{}:pair", root), disk.clone(), spec.clone());
        let mut pspec = spec.clone();
        pspec.roots = vec!["multi_rev.asm".to_string()];
        let pred = Job::from_spec("genprog:multi_rev.asm:pair", disk, pspec);
        let keys = rng.bytes16();
        return SimPlan { faults: vec![vec![], vec![]], jobs: vec![pred, job], threads: vec![ThreadPlan { keys: keys_to_hex(&keys), jobs: vec![0, 1], reuse: vec![false, true], offsets: vec![0, 0] }], schedule: vec![], sched_seed: None, switch_16: 0, clock: vec![], lib_pass: true, all_formats: true, realfs: false, env: vec![], clock_tick_ns: 0 };
    }
    if rng.chance(1, 10) {
        // directed pair on one thread: a job right after its failing twin
        // (same names, same tree, one injected error)
        for _ in 0..8 {
            let k = rng.below(POOL);
            let mut job = pool_job(seed, k, c);
            if rng.chance(1, 2) {
                let mut disk = crate::disk::Disk::new(corpus::PROJ);
                let (root, text) = if rng.chance(2, 3) { ("shadow.asm", asm_shadow_program(rng)) } else { ("conv.asm", convergence_program(rng)) };
                disk.add_file(root, text);
                let mut spec = Spec::simple(root);
                cmdline::draw_knobs(rng, &mut spec);
                spec.debug_iters = rng.chance(1, 2);
                job = Job::from_spec(&format!("genprog:{}:twin", root), disk, spec);
            }
            // the twin fails through an injected error in its text, or
            // (1 in 4) through an I/O fault on one of its files: the faulted
            // execution is history only, it is not compared with anything
            let mut twin_faults: Vec<crate::fs::Fault> = Vec::new();
            let twin = if rng.chance(1, 4) {
                let mut t = job.clone();
                t.name = format!("failing-twin[io-fault]({})", job.name);
                let files: Vec<String> = job.disk.files().iter().map(|(k, _)| (*k).clone()).collect();
                let outs: Vec<String> = job.spec.as_ref().map(|s| s.groups.iter().filter_map(|g| g.out.clone()).collect()).unwrap_or_default();
                if !outs.is_empty() && rng.chance(1, 3) {
                    let o = &outs[rng.below(outs.len())];
                    let path = if o.starts_with('/') { o.clone() } else { format!("{}/{}", corpus::PROJ, o) };
                    twin_faults.push(crate::fs::Fault { path, kind: *rng.pick(&[crate::fs::FaultKind::Unwritable, crate::fs::FaultKind::WriteError]) });
                } else if !files.is_empty() {
                    let path = files[rng.below(files.len())].clone();
                    twin_faults.push(crate::fs::Fault { path, kind: *rng.pick(&[crate::fs::FaultKind::Missing, crate::fs::FaultKind::Unreadable, crate::fs::FaultKind::ReadError]) });
                }
                Some(t)
            } else {
                failing_twin(rng, &job)
            };
            if let Some(twin) = twin {
                let keys = rng.bytes16();
                let mut jobs = vec![twin, job];
                let mut idx = vec![0usize, 1];
                let mut faults = vec![twin_faults, vec![]];
                if rng.chance(1, 3) {
                    // the job itself first as well: success, failure, success
                    jobs.insert(0, jobs[1].clone());
                    faults.insert(0, vec![]);
                    idx = vec![0, 1, 2];
                }
                let n = jobs.len();
                let reuse: Vec<bool> = (0..n).map(|i| i > 0 && rng.chance(1, 2)).collect();
                return SimPlan { faults, jobs, threads: vec![ThreadPlan { keys: keys_to_hex(&keys), jobs: idx, reuse, offsets: vec![0; n] }], schedule: vec![], sched_seed: None, switch_16: 0, clock: vec![], lib_pass: true, all_formats: true, realfs: false, env: vec![], clock_tick_ns: 0 };
            }
        }
    }
    // now and then a long history on one thread (state that only builds up
    // over dozens of assemblies, e.g. a counter leaked on error paths)
    let long_history = rng.chance(1, 40);
    let n_jobs = if long_history { rng.range(30, 60) } else { *rng.pick(&[3, 3, 4, 4, 5, 6, 8, 10]) };
    let mut jobs: Vec<Job> = Vec::new();
    while jobs.len() < n_jobs {
        let k = rng.below(POOL);
        let job = pool_job(seed, k, c);
        // collision variants
        if !jobs.is_empty() && rng.chance(1, 5) {
            let prev = jobs[jobs.len() - 1].clone();
            if let (Some(ps), Some(js)) = (&prev.spec, &job.spec) {
                if ps.roots.len() == 1 && js.roots.len() == 1 {
                    let mut variant = prev.clone();
                    if rng.chance(1, 2) {
                        // same names, different content
                        if let Some(crate::disk::Node::File(d)) = job.disk.nodes.get(&format!("{}/{}", corpus::PROJ, js.roots[0])) {
                            variant.disk.add_file(&ps.roots[0], d.clone());
                            variant.name = format!("collision-same-name({} <- {})", prev.name, job.name);
                            jobs.push(variant);
                            continue;
                        }
                    } else if let Some(crate::disk::Node::File(d)) = prev.disk.nodes.get(&format!("{}/{}", corpus::PROJ, ps.roots[0])) {
                        // same content under a different name
                        let new_root = format!("renamed_{}", ps.roots[0].replace('/', "_"));
                        variant.disk.add_file(&new_root, d.clone());
                        let mut spec = ps.clone();
                        spec.roots = vec![new_root];
                        variant.argv = spec.render();
                        variant.spec = Some(spec);
                        variant.name = format!("collision-renamed({})", prev.name);
                        jobs.push(variant);
                        continue;
                    }
                }
            }
        }
        // the same job several times in one run
        if !jobs.is_empty() && rng.chance(1, 6) {
            let again = jobs[rng.below(jobs.len())].clone();
            jobs.push(again);
            continue;
        }
        jobs.push(job);
    }
    let nthreads = if long_history { 1 } else { *rng.pick(&[1, 2, 2, 3, 4]) };
    let mut threads: Vec<ThreadPlan> = (0..nthreads)
        .map(|_| {
            let k = match rng.below(6) {
                0 => [0u8; 16],
                1 => [0xffu8; 16],
                _ => rng.bytes16(),
            };
            ThreadPlan { keys: keys_to_hex(&k), jobs: vec![], reuse: vec![], offsets: vec![] }
        })
        .collect();
    for j in 0..jobs.len() {
        let t = rng.below(nthreads);
        threads[t].jobs.push(j);
        threads[t].reuse.push(rng.chance(1, 3));
        threads[t].offsets.push(*rng.pick(&[0usize, 0, 0, 1, 2, 5, 16, 32, 48, 17, 50]));
    }
    threads.retain(|t| !t.jobs.is_empty());
    let mut clock = Vec::new();
    if rng.chance(1, 2) {
        let mut at = 0u64;
        for _ in 0..rng.range(1, 5) {
            at += rng.below(40) as u64;
            let sec = *rng.pick(&[0i64, 1, 86399, 951782400, 2147483647, 2147483648, 4102444800, 253402300800, 1700000000]);
            clock.push((at, sec, rng.below(1_000_000_000) as i64));
        }
    }
    SimPlan { faults: vec![vec![]; jobs.len()], jobs, threads, schedule: vec![], sched_seed: Some(rng.next()), switch_16: *rng.pick(&[0, 2, 4, 8, 16]), clock, lib_pass: true, all_formats: true, realfs: false, env: draw_env(rng), clock_tick_ns: if rng.chance(1, 3) { *rng.pick(&[1_000i64, 1_000_000, 1_000_000_000, 10_000_000_000, -1_000_000_000]) } else { 0 } }
}

pub fn check_plan(plan: &SimPlan, res: &PlanResult, refs: &BTreeMap<String, Record>) -> Vec<Violation> {
    let mut v = Vec::new();
    for (i, jr) in res.runs.iter().enumerate() {
        let job = &plan.jobs[jr.job];
        let jd = hex128(job.digest());
        if plan.faults.get(jr.job).map(|f| !f.is_empty()).unwrap_or(false) {
            continue; // an execution under an injected I/O fault is history, not a subject
        }
        let reference = match refs.get(&jd) {
            Some(r) => r,
            None => continue,
        };
        if matches!(reference.outcome, Outcome::Panic(_)) || reference.lib.panic.is_some() {
            continue; // C03's business
        }
        if plan.realfs {
            if let Outcome::Panic(p) = &jr.record.outcome {
                if p.starts_with("SKIPPED") {
                    continue;
                }
            }
            let a = crate::realfs::comparable(job, reference, true);
            let b = crate::realfs::comparable(job, &jr.record, false);
            for ((k, x), (_, y)) in a.iter().zip(b.iter()) {
                if x != y {
                    v.push(Violation::new(
                        &format!("divergence-real-server:{}", k),
                        format!("job {} argv={:?} (assembly #{} in one process through FileServerReal, server object reused: {}): `{}` differs from the same job alone\n--- alone\n{}\n--- after the earlier assemblies\n{}", job.name, job.argv, jr.pos + 1, jr.reused_server, k, crate::orch::truncate(x, 600), crate::orch::truncate(y, 600)),
                    ));
                    break;
                }
            }
            continue;
        }
        let off = plan.threads.get(jr.thread).and_then(|t| t.offsets.get(jr.pos)).copied().unwrap_or(0);
        let env = format!("thread {} keys {} queue position {} reused-server {} handle-offset {} interleaved {} clock-script {} env {:?}", jr.thread, plan.threads.get(jr.thread).map(|t| t.keys.as_str()).unwrap_or("?"), jr.pos, jr.reused_server, off, res.interleaved(i), !plan.clock.is_empty(), plan.env);
        v.extend(compare(job, reference, &jr.record, &env));
    }
    v
}

pub fn run(ctx: &mut Ctx, c: &Corpus) -> Vec<Replay> {
    let mut rng = Rng::new(ctx.run_seed);
    let plan = build_plan(&mut rng, ctx.seed, c);
    let mut out = Vec::new();

    // reference records, one per distinct job of this run
    let mut refs: BTreeMap<String, Record> = BTreeMap::new();
    for job in &plan.jobs {
        let jd = hex128(job.digest());
        if refs.contains_key(&jd) {
            continue;
        }
        // the reference comes from a fresh process; if that process dies
        // (a crash is C03's business) the job is skipped below
        ctx.stats.inc("reference_runs");
        match reference_record(job, &ctx.verif) {
            Some(r) => {
                refs.insert(jd, r);
            }
            None => {
                ctx.stats.inc("reference_process_failed");
                let res = ctx.exec(&reference_plan(job), "C10");
                refs.insert(jd, res.runs[0].record.clone());
            }
        }
    }

    let res = ctx.exec(&plan, "C10");
    ctx.stats.inc("simulated_runs");
    if plan.realfs {
        ctx.stats.inc("real_file_server_runs");
        for jr in &res.runs {
            ctx.stats.inc("evaluations");
            ctx.stats.inc("real_file_server_assemblies");
            if jr.pos > 0 {
                ctx.stats.inc("dim_real_server_history");
                let jd = hex128(plan.jobs[jr.job].digest());
                ctx.stats.note("nontrivial", format!("r:{}:{}:{}", &jd[..16], jr.pos, jr.reused_server));
            }
        }
        let mut seen = std::collections::BTreeSet::new();
        for v in check_plan(&plan, &res, &refs) {
            if seen.insert(v.class.clone()) {
                out.push(ctx.replay("C10", v, plan.clone()));
            }
        }
        return out;
    }
    ctx.stats.note("interleavings", res.schedule_digest());
    ctx.stats.add("scheduling_points", res.points);
    ctx.stats.add("thread_switches", res.switches);
    for cn in &res.canaries {
        ctx.stats.note("canary_permutations", cn.clone());
    }
    ctx.stats.note("clock_values", res.clock_canary.to_string());
    ctx.stats.max("max_clock_s", res.clock_canary);
    for t in &plan.threads {
        ctx.stats.note("key_pairs", t.keys.clone());
    }
    for (i, jr) in res.runs.iter().enumerate() {
        let job = &plan.jobs[jr.job];
        let jd = hex128(job.digest());
        ctx.stats.inc("evaluations");
        let reference = &refs[&jd];
        if matches!(reference.outcome, Outcome::Panic(_)) || reference.lib.panic.is_some() {
            ctx.stats.inc("skipped_reference_crashes");
            continue;
        }
        let keys = &plan.threads[jr.thread].keys;
        let inter = res.interleaved(i);
        let collision = job.name.starts_with("collision");
        let mut dims = 0;
        if keys != "00000000000000000000000000000000" {
            ctx.stats.inc("dim_keys");
            dims += 1;
        }
        if jr.pos > 0 {
            ctx.stats.inc("dim_history");
            dims += 1;
        }
        if inter {
            ctx.stats.inc("dim_interleaved");
            dims += 1;
        }
        if jr.reused_server {
            ctx.stats.inc("dim_server_reuse");
            dims += 1;
        }
        if collision {
            ctx.stats.inc("dim_name_collision");
        }
        if jr.pos > 0 && plan.jobs.iter().any(|j| j.name.starts_with("failing-twin")) {
            ctx.stats.inc("dim_after_failing_twin");
        }
        if plan.threads[jr.thread].offsets.get(jr.pos).copied().unwrap_or(0) > 0 && !jr.reused_server {
            ctx.stats.inc("dim_handle_layout");
            dims += 1;
        }
        if !plan.clock.is_empty() {
            ctx.stats.inc("dim_clock");
            dims += 1;
        }
        if plan.clock_tick_ns != 0 {
            ctx.stats.inc("dim_clock_passes_per_read");
            dims += 1;
        }
        if !plan.env.is_empty() {
            ctx.stats.inc("dim_env_vars");
            dims += 1;
        }
        if plan.threads.len() > 1 {
            ctx.stats.inc("dim_multi_thread");
        }
        let sens = sensitive_items(job, reference);
        if sens >= 2 && dims >= 1 {
            let envd = hex128(digest128(format!("{}|{}|{}|{}|{}|{}", keys, jr.thread, jr.pos, jr.reused_server, inter, !plan.clock.is_empty()).as_bytes()));
            ctx.stats.note("nontrivial", format!("{}:{}", &jd[..16], &envd[..12]));
        }
        if ctx.stats.samples.len() < 2 && sens >= 2 && dims >= 2 {
            ctx.stats.sample(
                serde_json::json!({"job": job.name, "argv": job.argv, "thread": jr.thread, "keys": keys, "queue_position": jr.pos, "reused_server": jr.reused_server, "interleaved": inter,
                    "threads_in_run": plan.threads.len(), "jobs_in_run": plan.jobs.len(), "clock_script": plan.clock, "sensitive_items": sens, "outcome": format!("{:?}", jr.record.outcome), "schedule_prefix": res.decisions.iter().take(24).collect::<Vec<_>>()}),
                4,
            );
        }
    }
    let viol = check_plan(&plan, &res, &refs);
    // one replay per class per run
    let mut seen = std::collections::BTreeSet::new();
    for v in viol {
        if seen.insert(v.class.clone()) {
            let mut p = plan.clone();
            // record the decisions actually taken so that the file replays
            // without the generator
            p.schedule = res.decisions.clone();
            p.sched_seed = None;
            out.push(ctx.replay("C10", v, p));
        }
    }
    out
}

pub fn classify(r: &Replay) -> Vec<Violation> {
    let mut refs: BTreeMap<String, Record> = BTreeMap::new();
    for job in &r.plan.jobs {
        let jd = hex128(job.digest());
        if refs.contains_key(&jd) {
            continue;
        }
        match reference_record(job, "") {
            Some(r) => {
                refs.insert(jd, r);
            }
            None => {
                let res = crate::plan::run_plan(&reference_plan(job));
                refs.insert(jd, res.runs[0].record.clone());
            }
        }
    }
    let res = crate::plan::run_plan(&r.plan);
    check_plan(&r.plan, &res, &refs)
}

// ===================================================================== Tier B

use crate::procsim::{proc_replay, ProcPlan, ProcRecord};

fn proc_fields(rec: &ProcRecord) -> Vec<(String, String)> {
    vec![
        ("exit".to_string(), format!("{:?}/{:?}", rec.exit, rec.signal)),
        ("stdout".to_string(), String::from_utf8_lossy(&rec.stdout).to_string()),
        ("stderr".to_string(), String::from_utf8_lossy(&rec.stderr).to_string()),
        ("files".to_string(), format!("{:?}", rec.changed)),
    ]
}

fn compare_proc(job: &Job, reference: &ProcRecord, got: &ProcRecord, env: &str) -> Vec<Violation> {
    let a = proc_fields(reference);
    let b = proc_fields(got);
    for ((k, x), (_, y)) in a.iter().zip(b.iter()) {
        if x != y {
            return vec![Violation::new(&format!("divergence:{}", k), format!("job {} argv={:?}: `{}` of the real binary differs between the canonical process and [{}]\n--- canonical\n{}\n--- this environment\n{}", job.name, job.argv, k, env, crate::orch::truncate(x, 700), crate::orch::truncate(y, 700)))];
        }
    }
    vec![]
}

pub fn run_proc(ctx: &mut Ctx, c: &Corpus, verif: &str) -> Vec<Replay> {
    let mut rng = Rng::new(ctx.run_seed);
    let job = pool_job(ctx.seed, rng.below(POOL), c);
    let mut out = Vec::new();
    let base_plan = ProcPlan { job: job.clone(), faults: vec![], keys: "00000000000000000000000000000000".to_string(), clock: None, scratch_tag: String::new(), env: vec![], stdout_full: false };
    let base = ctx.exec_proc(&base_plan, "C10", verif);
    if let Some(why) = &base.skipped {
        ctx.stats.inc(&format!("skipped:{}", why));
        return out;
    }
    if base.signal.is_some() || !matches!(base.exit, Some(0) | Some(1)) {
        ctx.stats.inc("skipped_reference_crashes");
        return out;
    }
    let jd = hex128(job.digest());
    for _ in 0..4 {
        let keys = keys_to_hex(&rng.bytes16());
        let clock = if rng.chance(1, 2) { Some(*rng.pick(&[0i64, 2147483648, 4102444800, 253402300800])) } else { None };
        let tag = if rng.chance(1, 2) { format!("-{}", "x".repeat(rng.range(1, 40))) } else { String::new() };
        let mut env_vars = draw_env(&mut rng);
        if clock.is_some() && rng.chance(1, 2) {
            // time passes with every read of the clock
            env_vars.push(("SHIM_CLOCK_TICK_NS".to_string(), rng.pick(&["1000", "1000000", "1000000000", "10000000000"]).to_string()));
        }
        // legal-but-unusual kernel behaviour is part of the environment too:
        // interrupted and short reads/writes, a size hint that is too large
        let mut kernel: Vec<crate::procsim::ProcFault> = Vec::new();
        if rng.chance(1, 3) {
            for k in ["eintr-read", "short-read", "short-write", "eintr-write", "stat-fd-inflate", "stat-fd-fail"] {
                if rng.chance(1, 3) {
                    kernel.push(crate::procsim::ProcFault { kind: k.to_string(), path: "*".to_string() });
                }
            }
        }
        let plan = ProcPlan { job: job.clone(), faults: kernel.clone(), keys: keys.clone(), clock, scratch_tag: tag.clone(), env: env_vars.clone(), stdout_full: false };
        let rec = ctx.exec_proc(&plan, "C10", verif);
        ctx.stats.inc("evaluations");
        ctx.stats.note("key_pairs", keys.clone());
        let sens = job.argv.iter().map(|a| a.matches(',').count()).sum::<usize>() + job.argv.iter().filter(|a| *a == "-d").count() + base.error_lines() + base.changed.len();
        if sens >= 2 {
            ctx.stats.note("nontrivial", format!("p:{}:{}", &jd[..16], &keys[..12]));
        }
        let env = format!("fresh process, keys {}, clock {:?}, scratch suffix {:?}, environment {:?}, kernel behaviour {:?}", keys, clock, tag, env_vars, kernel.iter().map(|f| f.kind.as_str()).collect::<Vec<_>>());
        if !kernel.is_empty() {
            ctx.stats.inc("dim_kernel_behaviour");
        }
        for v in compare_proc(&job, &base, &rec, &env) {
            out.push(proc_replay("C10", ctx.seed, ctx.run, v, plan.clone()));
        }
        if ctx.stats.samples.len() < 1 {
            ctx.stats.sample(serde_json::json!({"tier": "proc", "job": job.name, "argv": job.argv, "keys": keys, "clock": clock, "scratch_suffix_len": tag.len(), "exit": rec.exit}), 4);
        }
    }
    out
}

pub fn classify_proc(r: &Replay, verif: &str) -> Vec<Violation> {
    let plan = match &r.proc {
        Some(p) => p,
        None => return vec![],
    };
    let mut bp = plan.clone();
    bp.keys = "00000000000000000000000000000000".to_string();
    bp.clock = None;
    bp.scratch_tag = String::new();
    bp.env = vec![];
    bp.faults = vec![];
    let base = crate::procsim::run_proc(&bp, verif);
    let rec = crate::procsim::run_proc(plan, verif);
    compare_proc(&plan.job, &base, &rec, "replay")
}
