//! "Real file server, one process, several assemblies": the jobs of a plan
//! are executed one after the other on one thread of this process with the
//! repository's real `util::FileServerReal` over a scratch tree on tmpfs
//! (cwd changed into it). This is the history dimension of C10 for the code
//! the simulated disk replaces: anything `FileServerReal` (or code below it)
//! remembers between assemblies shows up as a difference from the same job
//! run alone on the simulated disk.

use crate::disk::Node;
use crate::driver;
use crate::job::{Job, LibRecord, Outcome, Record, WriteRec};
use crate::plan::{JobRun, PlanResult, SimPlan};
use crate::seams;
use customasm::util;
use std::collections::BTreeMap;
use std::sync::atomic::{AtomicU64, Ordering};

include!(concat!(env!("OUT_DIR"), "/std_files.rs"));

static COUNTER: AtomicU64 = AtomicU64::new(0);

fn collect(dir: &std::path::Path, root: &str, out: &mut BTreeMap<String, Vec<u8>>) {
    if let Ok(rd) = std::fs::read_dir(dir) {
        for e in rd.filter_map(|e| e.ok()) {
            let p = e.path();
            match e.file_type() {
                Ok(t) if t.is_dir() => collect(&p, root, out),
                Ok(t) if t.is_file() => {
                    if let Ok(d) = std::fs::read(&p) {
                        out.insert(p.to_string_lossy()[root.len()..].to_string(), d);
                    }
                }
                _ => {}
            }
        }
    }
}

const STAMP_INPUT: i64 = 1_600_000_000;
const STAMP_LEFTOVER: i64 = 1_600_000_100;

fn set_mtime(path: &str, sec: i64) {
    if let Ok(c) = std::ffi::CString::new(path) {
        let ts = [libc::timespec { tv_sec: sec, tv_nsec: 0 }, libc::timespec { tv_sec: sec, tv_nsec: 0 }];
        unsafe {
            libc::utimensat(libc::AT_FDCWD, c.as_ptr(), ts.as_ptr(), 0);
        }
    }
}

fn mtime_of(path: &str) -> Option<i64> {
    use std::os::unix::fs::MetadataExt;
    std::fs::metadata(path).ok().map(|m| m.mtime())
}

/// Bring the scratch tree to exactly the job's disk image: files of an
/// earlier job that the new image lacks are removed, files with the same
/// name are rewritten in place (so their modification time is "now").
///
/// `same_tree`: the previous job of the plan had exactly this disk image (the
/// same sources assembled again with another command line). Then the tree is
/// left alone as far as possible — what the previous assembly wrote stays
/// where it is and untouched files keep their modification times, as they
/// would for a user who runs the assembler twice.
fn materialise(root: &str, job: &Job, same_tree: bool) -> bool {
    let mut present = BTreeMap::new();
    collect(std::path::Path::new(root), root, &mut present);
    for p in present.keys() {
        if !same_tree && !matches!(job.disk.nodes.get(p), Some(Node::File(_))) {
            let _ = std::fs::remove_file(format!("{}{}", root, p));
        }
    }
    for (p, node) in job.disk.nodes.iter() {
        let real = format!("{}{}", root, p);
        match node {
            Node::Dir => {
                if std::path::Path::new(&real).is_file() {
                    let _ = std::fs::remove_file(&real);
                }
                let _ = std::fs::create_dir_all(&real);
            }
            Node::File(d) => {
                if let Some(parent) = std::path::Path::new(&real).parent() {
                    let _ = std::fs::create_dir_all(parent);
                }
                if std::path::Path::new(&real).is_dir() {
                    let _ = std::fs::remove_dir_all(&real);
                }
                if same_tree && present.get(p) == Some(d) {
                    continue;
                }
                if std::fs::write(&real, d).is_err() {
                    return false;
                }
            }
        }
    }
    true
}

pub fn run_plan_realfs(plan: &SimPlan) -> PlanResult {
    let plan2 = plan.clone();
    seams::set_sim_time(1_700_000_000, 0);
    seams::set_clock_tick(0);
    let h = std::thread::Builder::new()
        .name("sim-real".to_string())
        .stack_size(8 << 20)
        .spawn(move || {
            let plan = plan2;
            let mut runs: Vec<JobRun> = Vec::new();
            let tp = match plan.threads.first() {
                Some(t) => t.clone(),
                None => return (runs, String::new()),
            };
            seams::set_thread_keys(crate::plan::keys_from_hex(&tp.keys));
            let canary = seams::hash_canary();
            let n = COUNTER.fetch_add(1, Ordering::SeqCst);
            let root = format!("/dev/shm/vreal-{}-{}", std::process::id(), n);
            let _ = std::fs::remove_dir_all(&root);
            let _ = std::fs::create_dir_all(&root);
            let cap = seams::Capture::new();
            let mut server: Option<util::FileServerReal> = None;
            for (pos, jidx) in tp.jobs.iter().enumerate() {
                let job = &plan.jobs[*jidx];
                let mut rec = Record { outcome: Outcome::Err, stdout: vec![], stderr: vec![], writes: vec![], new_files: vec![], events: vec![], fired: vec![], lib: LibRecord::default() };
                let same_tree = pos > 0 && plan.jobs[tp.jobs[pos - 1]].disk == job.disk;
                if crate::procsim::materialisable(job).is_err() || !materialise(&root, job, same_tree) {
                    rec.outcome = Outcome::Panic("SKIPPED: not materialisable".to_string());
                    runs.push(JobRun { job: *jidx, thread: 0, pos, reused_server: false, record: rec, seq_start: 0, seq_end: 0 });
                    server = None;
                    continue;
                }
                let cwd = format!("{}{}", root, job.disk.cwd);
                let _ = std::fs::create_dir_all(&cwd);
                if std::env::set_current_dir(&cwd).is_err() {
                    rec.outcome = Outcome::Panic("SKIPPED: chdir failed".to_string());
                    runs.push(JobRun { job: *jidx, thread: 0, pos, reused_server: false, record: rec, seq_start: 0, seq_end: 0 });
                    continue;
                }
                let mut before = BTreeMap::new();
                collect(std::path::Path::new(&root), &root, &mut before);
                // Same tree as the previous job: its outputs are still there.
                // Every file gets a modification time in the past — inputs
                // older than leftovers, as after an ordinary earlier run — so
                // that "was this file written by this job" can be read off
                // the timestamp even when the bytes are the same.
                let mut leftovers: Vec<String> = Vec::new();
                if same_tree {
                    for p in before.keys() {
                        let is_input = matches!(job.disk.nodes.get(p), Some(Node::File(_)));
                        set_mtime(&format!("{}{}", root, p), if is_input { STAMP_INPUT } else { STAMP_LEFTOVER });
                        if !is_input {
                            leftovers.push(p.clone());
                        }
                    }
                }
                // The server object is an input the embedding host passes in:
                // it may legitimately remember what it read for as long as it
                // lives. It is therefore only reused when nothing on disk
                // changed since it last looked (the same job again); process-
                // wide state (statics, thread-locals) is still exercised by
                // every later assembly, with a fresh server object.
                let same_as_prev = pos > 0 && plan.jobs[tp.jobs[pos - 1]].disk == job.disk && plan.jobs[tp.jobs[pos - 1]].use_std == job.use_std;
                let reuse = tp.reuse.get(pos).copied().unwrap_or(false) && server.is_some() && same_as_prev;
                let mut fs = match (reuse, server.take()) {
                    (true, Some(s)) => s,
                    _ => {
                        let mut s = util::FileServerReal::new();
                        if job.use_std {
                            s.add_std_files(STD_FILES);
                        }
                        s
                    }
                };
                cap.install();
                let _ = cap.take();
                let _ = seams::take_last_panic();
                let r = std::panic::catch_unwind(std::panic::AssertUnwindSafe(|| driver::drive_from_commandline(&job.argv, &mut fs)));
                let (stdout, stderr) = cap.take();
                rec.stdout = stdout;
                rec.stderr = stderr;
                rec.outcome = match r {
                    Ok(res) if res.is_ok() => Outcome::Ok,
                    Ok(_) => Outcome::Err,
                    Err(_) => Outcome::Panic(seams::take_last_panic().unwrap_or_else(|| "<panic>".to_string())),
                };
                let mut after = BTreeMap::new();
                collect(std::path::Path::new(&root), &root, &mut after);
                for (p, d) in &after {
                    let rewritten_same_bytes = leftovers.contains(p) && mtime_of(&format!("{}{}", root, p)) != Some(STAMP_LEFTOVER);
                    if before.get(p) != Some(d) || rewritten_same_bytes {
                        rec.writes.push(WriteRec { spelling: p.clone(), resolved: p.clone(), data: d.clone(), complete: true });
                    }
                }
                server = Some(fs);
                runs.push(JobRun { job: *jidx, thread: 0, pos, reused_server: reuse, record: rec, seq_start: 0, seq_end: 0 });
            }
            drop(server);
            let _ = std::env::set_current_dir("/");
            let _ = std::fs::remove_dir_all(&root);
            (runs, canary)
        })
        .expect("spawn");
    let (runs, canary) = h.join().unwrap_or((Vec::new(), String::new()));
    seams::restore_fds();
    let _ = std::env::set_current_dir("/");
    PlanResult { runs, decisions: vec![], switches: 0, points: 0, canaries: vec![canary], clock_canary: seams::clock_canary() }
}

/// What a real-file-server run and a simulated-disk run of the same job must
/// agree on: outcome, both streams, and the set of files created or changed.
pub fn comparable(job: &Job, rec: &Record, simulated: bool) -> Vec<(String, String)> {
    let mut files: BTreeMap<String, String> = BTreeMap::new();
    for w in &rec.writes {
        files.insert(w.resolved.clone(), crate::prng::hex128(crate::prng::digest128(&w.data)));
    }
    if simulated {
        // content identical to what was there is not a change on a real disk
        files.retain(|p, d| match job.disk.nodes.get(p) {
            Some(Node::File(old)) => crate::prng::hex128(crate::prng::digest128(old)) != *d,
            _ => true,
        });
    }
    vec![
        ("outcome".to_string(), format!("{:?}", rec.outcome)),
        ("stdout".to_string(), crate::c10::mask_file_handles(&String::from_utf8_lossy(&rec.stdout))),
        ("stderr".to_string(), String::from_utf8_lossy(&rec.stderr).to_string()),
        ("files".to_string(), format!("{:?}", files)),
    ]
}
