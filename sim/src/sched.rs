//! Baton scheduler over real OS threads. Exactly one simulated thread runs at
//! any instant; it gives up the baton only at scheduling points (job start,
//! job end, every file-server call), where the next runnable thread is chosen
//! from the recorded schedule (replay) or the seeded PRNG. Real threads are
//! deliberate: std's per-thread `RandomState` keys are behaviour under test.

use crate::prng::Rng;
use crate::seams;
use std::sync::atomic::{AtomicU64, Ordering};
use std::sync::{Condvar, Mutex};

pub struct State {
    pub current: Option<usize>,
    pub runnable: Vec<bool>,
    pub started: Vec<bool>,
    /// choices made so far: index into the sorted list of runnable threads
    pub decisions: Vec<u8>,
    /// choices to replay first
    pub script: Vec<u8>,
    pub script_pos: usize,
    /// after the script: Some(rng) = seeded random, None = run-to-completion
    pub rng: Option<Rng>,
    /// probability (out of 16) to switch at a point when random
    pub switch_16: usize,
    /// simulated clock script: (decision index, sec, nsec)
    pub clock: Vec<(u64, i64, i64)>,
    pub clock_pos: usize,
    pub switches: u64,
    pub points: u64,
    /// per-thread capture installer (fd numbers)
    pub caps: Vec<(i32, i32)>,
}

pub struct Sched {
    pub st: Mutex<State>,
    pub cv: Condvar,
    pub seq: AtomicU64,
}

impl Sched {
    pub fn new(nthreads: usize, script: Vec<u8>, rng: Option<Rng>, switch_16: usize, clock: Vec<(u64, i64, i64)>) -> Sched {
        Sched {
            st: Mutex::new(State {
                current: None,
                runnable: vec![true; nthreads],
                started: vec![false; nthreads],
                decisions: Vec::new(),
                script,
                script_pos: 0,
                rng,
                switch_16,
                clock,
                clock_pos: 0,
                switches: 0,
                points: 0,
                caps: vec![(-1, -1); nthreads],
            }),
            cv: Condvar::new(),
            seq: AtomicU64::new(0),
        }
    }

    pub fn next_seq(&self) -> u64 {
        self.seq.fetch_add(1, Ordering::SeqCst) + 1
    }

    fn choose(st: &mut State, me: Option<usize>) -> Option<usize> {
        let cands: Vec<usize> = (0..st.runnable.len()).filter(|i| st.runnable[*i]).collect();
        if cands.is_empty() {
            return None;
        }
        st.points += 1;
        // advance the clock script
        while st.clock_pos < st.clock.len() && st.clock[st.clock_pos].0 <= st.decisions.len() as u64 {
            let c = st.clock[st.clock_pos];
            seams::set_sim_time(c.1, c.2);
            st.clock_pos += 1;
        }
        let idx = if st.script_pos < st.script.len() {
            let c = st.script[st.script_pos] as usize % cands.len();
            st.script_pos += 1;
            c
        } else if let Some(rng) = st.rng.as_mut() {
            // bias towards staying on the current thread so that jobs make
            // progress; switch with probability switch_16/16
            let stay = me.and_then(|m| cands.iter().position(|c| *c == m));
            match stay {
                Some(p) if !rng.chance(st.switch_16, 16) => p,
                _ => rng.below(cands.len()),
            }
        } else {
            // run to completion: stay if possible, else lowest id
            me.and_then(|m| cands.iter().position(|c| *c == m)).unwrap_or(0)
        };
        st.decisions.push(idx as u8);
        let next = cands[idx];
        if Some(next) != me {
            st.switches += 1;
        }
        Some(next)
    }

    fn install(st: &State, tid: usize) {
        let (o, e) = st.caps[tid];
        if o >= 0 {
            seams::Capture::flush();
            unsafe {
                libc::dup2(o, 1);
                libc::dup2(e, 2);
            }
        }
    }

    /// Register this thread's capture fds (before `start`).
    pub fn set_capture(&self, tid: usize, out_fd: i32, err_fd: i32) {
        self.st.lock().unwrap().caps[tid] = (out_fd, err_fd);
    }

    /// Called once by the coordinator after all threads are spawned.
    pub fn kick(&self) {
        let mut st = self.st.lock().unwrap();
        let next = Sched::choose(&mut st, None);
        st.current = next;
        drop(st);
        self.cv.notify_all();
    }

    /// Block until this thread holds the baton for the first time.
    pub fn start(&self, tid: usize) {
        let mut st = self.st.lock().unwrap();
        st.started[tid] = true;
        while st.current != Some(tid) {
            st = self.cv.wait(st).unwrap();
        }
        Sched::install(&st, tid);
    }

    /// A scheduling point: possibly hand the baton to another thread and wait
    /// to get it back.
    pub fn yield_point(&self, tid: usize) {
        let mut st = self.st.lock().unwrap();
        debug_assert_eq!(st.current, Some(tid));
        let next = Sched::choose(&mut st, Some(tid));
        if next == Some(tid) {
            return;
        }
        seams::Capture::flush();
        st.current = next;
        self.cv.notify_all();
        while st.current != Some(tid) {
            st = self.cv.wait(st).unwrap();
        }
        Sched::install(&st, tid);
    }

    /// The thread is done: give the baton away for good.
    pub fn finish(&self, tid: usize) {
        let mut st = self.st.lock().unwrap();
        seams::Capture::flush();
        st.runnable[tid] = false;
        if st.current == Some(tid) {
            let next = Sched::choose(&mut st, None);
            st.current = next;
        }
        drop(st);
        self.cv.notify_all();
    }

    pub fn snapshot(&self) -> (Vec<u8>, u64, u64) {
        let st = self.st.lock().unwrap();
        (st.decisions.clone(), st.switches, st.points)
    }
}
