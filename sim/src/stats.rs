//! Mergeable measurement record: counters, distinct-sets and samples. Every
//! number in an evidence file comes out of one of these, measured on the run.

use serde::{Deserialize, Serialize};
use std::collections::{BTreeMap, BTreeSet};

#[derive(Clone, Debug, Default, Serialize, Deserialize)]
pub struct Stats {
    pub counters: BTreeMap<String, u64>,
    pub distinct: BTreeMap<String, BTreeSet<String>>,
    pub samples: Vec<serde_json::Value>,
}

impl Stats {
    pub fn inc(&mut self, k: &str) {
        *self.counters.entry(k.to_string()).or_insert(0) += 1;
    }

    pub fn add(&mut self, k: &str, n: u64) {
        *self.counters.entry(k.to_string()).or_insert(0) += n;
    }

    pub fn max(&mut self, k: &str, n: u64) {
        let e = self.counters.entry(k.to_string()).or_insert(0);
        if n > *e {
            *e = n;
        }
    }

    pub fn get(&self, k: &str) -> u64 {
        self.counters.get(k).copied().unwrap_or(0)
    }

    pub fn note(&mut self, set: &str, item: String) {
        self.distinct.entry(set.to_string()).or_default().insert(item);
    }

    pub fn count(&self, set: &str) -> u64 {
        self.distinct.get(set).map(|s| s.len() as u64).unwrap_or(0)
    }

    pub fn sample(&mut self, v: serde_json::Value, cap: usize) {
        if self.samples.len() < cap {
            self.samples.push(v);
        }
    }

    pub fn merge(&mut self, other: Stats, sample_cap: usize) {
        for (k, v) in other.counters {
            if k.starts_with("max_") {
                self.max(&k, v);
            } else {
                self.add(&k, v);
            }
        }
        for (k, s) in other.distinct {
            self.distinct.entry(k).or_default().extend(s);
        }
        for s in other.samples {
            if self.samples.len() < sample_cap {
                self.samples.push(s);
            }
        }
    }
}
