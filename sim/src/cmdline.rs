//! Seeded command lines, built from a structured description so the harness
//! knows what was requested (how many file groups, which names).

use crate::job::{Group, Spec};
use crate::prng::Rng;

pub const FORMAT_NAMES: &[&str] = &[
    "binary", "annotated", "annotatedhex", "annotatedbin", "binstr", "hexstr", "bindump", "hexdump", "mif", "intelhex", "deccomma", "hexcomma", "decspace", "hexspace", "decc", "hexc", "c",
    "logisim8", "logisim16", "addrspan", "tcgame", "tcgamebin", "symbols", "mesen-mlb",
];

const GOOD_PARAMS: &[(&str, &[&str])] = &[
    ("annotated", &["base:2", "base:4", "base:8", "base:16", "base:32", "base:64", "base:128", "group:1", "group:2", "group:3", "group:4", "group:8", "group:16"]),
    ("tcgame", &["base:2", "base:16", "group:1", "group:4"]),
    ("intelhex", &["addr_unit:8", "addr_unit:16", "addr_unit:32"]),
];

const BAD_PARAMS: &[&str] = &["foo:1", "bar:2", "baz", "qux:x", "zed:0", "base:3", "group:0", "base:8:16", "addr_unit:7", "base:", ":", ""];
const UNKNOWN_PARAMS: &[&str] = &["foo:1", "bar:2", "baz:3", "qux", "zed:0", "alpha:9", "omega:7"];

/// A format that takes parameters, with one or two valid ones.
pub fn draw_good_format(rng: &mut Rng) -> String {
    let (name, ps) = *rng.pick(GOOD_PARAMS);
    let mut s = name.to_string();
    for _ in 0..rng.range(1, 2) {
        s.push(',');
        s.push_str(*rng.pick(ps));
    }
    s
}

pub fn draw_format(rng: &mut Rng) -> String {
    let k = rng.below(100);
    if k < 4 {
        return rng.pick(&["unknown", "", "BINARY", "hex str", "annotated;base:2"]).to_string();
    }
    let name = *rng.pick(FORMAT_NAMES);
    let mut s = name.to_string();
    if k < 55 {
        return s;
    }
    if k < 68 {
        // valid parameters (possibly duplicated) for the formats that take some
        let name = *rng.pick(&["annotated", "tcgame", "intelhex"]);
        s = name.to_string();
        let ps = GOOD_PARAMS.iter().find(|(n, _)| *n == name).unwrap().1;
        for _ in 0..rng.range(1, 3) {
            s.push(',');
            s.push_str(*rng.pick(ps));
        }
        return s;
    }
    if k < 78 {
        // every parameter name any format knows, on any format, with values
        // drawn from one shared pool (valid for one format, not for another)
        if rng.chance(7, 10) {
            s = rng.pick(&["annotated", "tcgame", "intelhex"]).to_string();
        }
        for _ in 0..rng.range(1, 2) {
            s.push(',');
            s.push_str(*rng.pick(&["base", "group", "addr_unit"]));
            s.push(':');
            s.push_str(*rng.pick(&["0", "1", "2", "3", "4", "7", "8", "10", "16", "32", "64", "128", "256", "-1", "x", "", "2.5", "0x10", " 8", "+8"]));
        }
        return s;
    }
    if k < 90 {
        // two or more unknown parameters
        for _ in 0..rng.range(2, 4) {
            s.push(',');
            s.push_str(*rng.pick(UNKNOWN_PARAMS));
        }
        return s;
    }
    for _ in 0..rng.range(1, 2) {
        s.push(',');
        s.push_str(*rng.pick(BAD_PARAMS));
    }
    s
}

pub fn draw_define(rng: &mut Rng, known: &[String]) -> String {
    let k = rng.below(100);
    let name = if !known.is_empty() && k < 50 { rng.pick(known).clone() } else { rng.pick(&["val", "variant", "value", "val1", "val1.val1.val1", "UNUSED", "unused.child", "x", "a.b"]).to_string() };
    match rng.below(12) {
        0 => name,
        1 => format!("{}=true", name),
        2 => format!("{}=false", name),
        3 => format!("{}=0", name),
        4 => format!("{}=1", name),
        5 => format!("{}=0x55", name),
        6 => format!("{}=-1", name),
        7 => format!("{}=85", name),
        8 => rng.pick(&["x=1=2", "=5", "x=", "x=-", "123=1", "", "x=abc", "x=0x", "x=0b12", "=", "x==", "x=é", "é=1", "x=--1", "x=0x_", "x=0b_", "x=1_", "x=_", "x=0o", "x=1__0", "x=\"\"", "x=\"a\"", "x= 1", "x=1 ", "x=$", "x=0x1_"]).to_string(),
        9 => format!("{}=0b101", name),
        10 => format!("{}=2", name),
        _ => format!("{}=555", name),
    }
}

/// Names declared `name = …` at top level in a source text: good candidates
/// for `-d` (used) defines.
pub fn declared_names(text: &[u8]) -> Vec<String> {
    let t = String::from_utf8_lossy(text);
    let mut out = Vec::new();
    for line in t.lines() {
        let l = line.trim();
        if let Some(eq) = l.find('=') {
            let name = l[..eq].trim();
            if !name.is_empty() && name.chars().all(|c| c.is_ascii_alphanumeric() || c == '_') && !name.chars().next().unwrap().is_ascii_digit() && !l[eq..].starts_with("==") && !l[eq..].starts_with("=>") {
                out.push(name.to_string());
            }
        }
    }
    out.sort();
    out.dedup();
    out
}

pub fn draw_spec(rng: &mut Rng, roots: &[String], other_files: &[String], known_names: &[String]) -> Spec {
    let mut spec = Spec::default();
    let k = rng.below(100);
    spec.roots = if k < 80 {
        vec![rng.pick(roots).clone()]
    } else if k < 88 && roots.len() >= 2 {
        vec![rng.pick(roots).clone(), rng.pick(roots).clone()]
    } else if k < 92 {
        vec![]
    } else if k < 96 {
        vec![rng.pick(&["missing.asm", "nodir/main.asm", ".", "..", "/", "", "../sentinel.asm", "./"]).to_string()]
    } else {
        vec![format!("./{}", rng.pick(roots))]
    };
    let ngroups = *rng.pick(&[1, 1, 1, 1, 2, 2, 3, 4, 1]);
    for _ in 0..ngroups {
        let mut g = Group { format: None, out: None, print: false };
        if rng.chance(7, 10) {
            g.format = Some(draw_format(rng));
        }
        match rng.below(10) {
            0..=4 => {
                g.out = Some(
                    match rng.below(20) {
                        0 => "nodir/out.bin".to_string(),
                        1 => ".".to_string(),
                        2 => "sub".to_string(),
                        3 if !other_files.is_empty() => rng.pick(other_files).clone(),
                        4 => "out/../out.bin".to_string(),
                        5 => "/w/proj/abs.out".to_string(),
                        n => format!("out{}.{}", n % 3, rng.pick(&["bin", "txt", "hex"])),
                    },
                );
            }
            5..=7 => {}
            _ => g.print = true,
        }
        spec.groups.push(g);
    }
    if rng.chance(1, 2) {
        spec.iters = Some(rng.pick(&["1", "2", "3", "10", "30", "1", "2", "0", "x", "", "-1", "99999999999999999999999"]).to_string());
    }
    spec.no_opt_static = rng.chance(1, 3);
    spec.no_opt_matcher = rng.chance(1, 3);
    spec.debug_iters = rng.chance(1, 12);
    for _ in 0..*rng.pick(&[0, 0, 0, 1, 1, 2, 3]) {
        spec.defines.push(draw_define(rng, known_names));
    }
    spec.quiet = rng.chance(1, 2);
    if rng.chance(1, 3) {
        spec.color = Some(rng.pick(&["on", "off", "on", "off", "x", ""]).to_string());
    }
    if spec.groups.len() > 1 && rng.chance(1, 3) {
        // the input files named in a later group than some output group
        spec.root_group = rng.range(1, spec.groups.len() - 1);
    }
    spec.help = rng.chance(1, 40);
    spec.version = rng.chance(1, 40);
    spec.long_opts = rng.chance(1, 4);
    spec
}

/// Knob-only variation for corpus/mutant jobs: budget, both debug switches,
/// colour, quiet — never anything that can itself be malformed.
pub fn draw_knobs(rng: &mut Rng, spec: &mut Spec) {
    if spec.iters.is_none() && rng.chance(2, 5) {
        spec.iters = Some(rng.pick(&["1", "2", "3", "10", "30", "10", "30", "5"]).to_string());
    }
    spec.no_opt_static |= rng.chance(1, 4);
    spec.no_opt_matcher |= rng.chance(1, 4);
    if spec.color.is_none() && rng.chance(1, 3) {
        spec.color = Some(rng.pick(&["on", "off"]).to_string());
    }
    spec.quiet |= rng.chance(1, 2);
    spec.long_opts |= rng.chance(1, 8);
    // the iteration trace prints the values of constants and instructions
    // (whatever their Debug form shows) on stdout
    spec.debug_iters |= rng.chance(1, 10);
}
