//! A small POSIX-like file system: directories, regular files, a cwd,
//! component-wise resolution with `..` through real parent links. This is the
//! simulator's disk; it resolves paths by *its* rules, not the assembler's.

use serde::{Deserialize, Serialize};
use std::collections::BTreeMap;

#[derive(Clone, Debug, PartialEq, Eq, Serialize, Deserialize)]
pub enum Node {
    Dir,
    File(#[serde(with = "b64")] Vec<u8>),
}

#[derive(Clone, Debug, PartialEq, Eq, Serialize, Deserialize)]
pub struct Disk {
    /// absolute normalised path ("/", "/w", "/w/proj/main.asm") -> node
    pub nodes: BTreeMap<String, Node>,
    pub cwd: String,
}

#[derive(Clone, Copy, Debug, PartialEq, Eq, Serialize, Deserialize)]
pub enum Errno {
    ENOENT,
    ENOTDIR,
    EISDIR,
    EACCES,
    EIO,
    ENOSPC,
    EROFS,
    EMFILE,
}

impl Errno {
    /// Text of `std::io::Error` Display for the corresponding OS error, so
    /// diagnostics look like FileServerReal's.
    pub fn os_text(&self) -> &'static str {
        match self {
            Errno::ENOENT => "No such file or directory (os error 2)",
            Errno::ENOTDIR => "Not a directory (os error 20)",
            Errno::EISDIR => "Is a directory (os error 21)",
            Errno::EACCES => "Permission denied (os error 13)",
            Errno::EIO => "Input/output error (os error 5)",
            Errno::ENOSPC => "No space left on device (os error 28)",
            Errno::EROFS => "Read-only file system (os error 30)",
            Errno::EMFILE => "Too many open files (os error 24)",
        }
    }
}

pub struct Resolved {
    /// absolute normalised path the name denotes (whether or not it exists)
    pub abs: String,
    pub exists: bool,
    pub is_dir: bool,
}

fn parent_of(abs: &str) -> String {
    if abs == "/" {
        return "/".to_string();
    }
    match abs.rfind('/') {
        Some(0) => "/".to_string(),
        Some(i) => abs[..i].to_string(),
        None => "/".to_string(),
    }
}

fn join(dir: &str, name: &str) -> String {
    if dir == "/" {
        format!("/{}", name)
    } else {
        format!("{}/{}", dir, name)
    }
}

impl Disk {
    pub fn new(cwd: &str) -> Disk {
        let mut d = Disk { nodes: BTreeMap::new(), cwd: cwd.to_string() };
        d.nodes.insert("/".to_string(), Node::Dir);
        d.mkdir_p(cwd);
        d
    }

    pub fn mkdir_p(&mut self, abs: &str) {
        let mut cur = "/".to_string();
        self.nodes.entry(cur.clone()).or_insert(Node::Dir);
        for c in abs.split('/').filter(|c| !c.is_empty()) {
            cur = join(&cur, c);
            self.nodes.entry(cur.clone()).or_insert(Node::Dir);
        }
    }

    /// Add a file by absolute path or path relative to cwd (no `..` handling:
    /// generator-side convenience), creating parent directories.
    pub fn add_file(&mut self, path: &str, data: Vec<u8>) {
        let abs = if path.starts_with('/') { path.to_string() } else { join(&self.cwd.clone(), path) };
        // lexical normalisation of '.', '..' and empty components
        let mut comps: Vec<&str> = Vec::new();
        for c in abs.split('/') {
            match c {
                "" | "." => {}
                ".." => {
                    comps.pop();
                }
                other => comps.push(other),
            }
        }
        let abs = format!("/{}", comps.join("/"));
        let parent = parent_of(&abs);
        self.mkdir_p(&parent);
        self.nodes.insert(abs, Node::File(data));
    }

    pub fn files(&self) -> Vec<(&String, &Vec<u8>)> {
        self.nodes.iter().filter_map(|(k, v)| if let Node::File(d) = v { Some((k, d)) } else { None }).collect()
    }

    /// POSIX path resolution without symlinks. Every intermediate component
    /// must exist and be a directory; the final one may be absent.
    pub fn resolve(&self, path: &str) -> Result<Resolved, Errno> {
        if path.is_empty() {
            return Err(Errno::ENOENT);
        }
        let mut cur = if path.starts_with('/') { "/".to_string() } else { self.cwd.clone() };
        let comps: Vec<&str> = path.split('/').collect();
        let trailing_slash = path.ends_with('/');
        let real: Vec<&str> = comps.iter().copied().filter(|c| !c.is_empty()).collect();
        let mut exists = true;
        for (i, c) in real.iter().enumerate() {
            // `cur` must be an existing directory to look anything up in it
            if !exists {
                return Err(Errno::ENOENT);
            }
            match self.nodes.get(&cur) {
                Some(Node::Dir) => {}
                Some(Node::File(_)) => return Err(Errno::ENOTDIR),
                None => return Err(Errno::ENOENT),
            }
            if *c == "." {
                continue;
            }
            if *c == ".." {
                cur = parent_of(&cur);
                continue;
            }
            cur = join(&cur, c);
            exists = self.nodes.contains_key(&cur);
            let last = i + 1 == real.len();
            if !exists && !last {
                return Err(Errno::ENOENT);
            }
        }
        let is_dir = matches!(self.nodes.get(&cur), Some(Node::Dir));
        if exists && trailing_slash && !is_dir {
            return Err(Errno::ENOTDIR);
        }
        Ok(Resolved { abs: cur, exists, is_dir })
    }

    pub fn read(&self, abs: &str) -> Result<&Vec<u8>, Errno> {
        match self.nodes.get(abs) {
            Some(Node::File(d)) => Ok(d),
            Some(Node::Dir) => Err(Errno::EISDIR),
            None => Err(Errno::ENOENT),
        }
    }

    pub fn is_inside(abs: &str, dir: &str) -> bool {
        if dir == "/" {
            return true;
        }
        abs == dir || abs.starts_with(&format!("{}/", dir))
    }
}

pub mod b64 {
    //! bytes <-> JSON: plain string when printable ASCII/UTF-8 without
    //! control characters (prefix "s:"), base64 otherwise (prefix "b:").
    use serde::{Deserialize, Deserializer, Serializer};

    const T: &[u8; 64] = b"ABCDEFGHIJKLMNOPQRSTUVWXYZabcdefghijklmnopqrstuvwxyz0123456789+/";

    pub fn encode(data: &[u8]) -> String {
        let mut out = String::new();
        for ch in data.chunks(3) {
            let b = [ch[0], *ch.get(1).unwrap_or(&0), *ch.get(2).unwrap_or(&0)];
            let n = ((b[0] as u32) << 16) | ((b[1] as u32) << 8) | (b[2] as u32);
            out.push(T[((n >> 18) & 63) as usize] as char);
            out.push(T[((n >> 12) & 63) as usize] as char);
            out.push(if ch.len() > 1 { T[((n >> 6) & 63) as usize] as char } else { '=' });
            out.push(if ch.len() > 2 { T[(n & 63) as usize] as char } else { '=' });
        }
        out
    }

    pub fn decode(s: &str) -> Vec<u8> {
        let mut out = Vec::new();
        let mut buf = 0u32;
        let mut bits = 0;
        for c in s.bytes() {
            let v = match c {
                b'A'..=b'Z' => c - b'A',
                b'a'..=b'z' => c - b'a' + 26,
                b'0'..=b'9' => c - b'0' + 52,
                b'+' => 62,
                b'/' => 63,
                _ => continue,
            } as u32;
            buf = (buf << 6) | v;
            bits += 6;
            if bits >= 8 {
                bits -= 8;
                out.push(((buf >> bits) & 0xff) as u8);
            }
        }
        out
    }

    pub fn to_text(data: &[u8]) -> String {
        match std::str::from_utf8(data) {
            Ok(s) if !s.chars().any(|c| (c < ' ' && c != '\n' && c != '\t') || c == '\u{7f}') => format!("s:{}", s),
            _ => format!("b:{}", encode(data)),
        }
    }

    pub fn from_text(s: &str) -> Vec<u8> {
        if let Some(r) = s.strip_prefix("s:") {
            r.as_bytes().to_vec()
        } else if let Some(r) = s.strip_prefix("b:") {
            decode(r)
        } else {
            s.as_bytes().to_vec()
        }
    }

    pub fn serialize<S: Serializer>(data: &Vec<u8>, s: S) -> Result<S::Ok, S::Error> {
        s.serialize_str(&to_text(data))
    }

    pub fn deserialize<'de, D: Deserializer<'de>>(d: D) -> Result<Vec<u8>, D::Error> {
        let s = String::deserialize(d)?;
        Ok(from_text(&s))
    }
}
