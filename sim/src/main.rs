//! Deterministic simulation harness for customasm (Tier A + orchestration).
//! See /verif/DESIGN.md.

#![allow(dead_code)]

use customasm::*;

// The repository's real driver, compiled into the harness exactly the way
// /repo/src/main.rs compiles it.
#[path = "../../repo-link/src/driver.rs"]
pub mod driver;

pub mod c03;
pub mod c10;
pub mod c14;
pub mod cmdline;
pub mod corpus;
pub mod disk;
pub mod fs;
pub mod job;
pub mod minimize;
pub mod model14;
pub mod mutate;
pub mod orch;
pub mod plan;
pub mod prng;
pub mod procsim;
pub mod realfs;
pub mod replay;
pub mod sched;
pub mod seams;
pub mod stats;
pub mod worker;

pub fn evidence_rule(prop: &str) -> String {
    match prop {
        "C03" => "Seeded jobs (corpus roots under random knobs, token-level mutants incl. non-ASCII insertions and degenerate literals, generated programs of which about half assemble, generated command lines in short and long spelling, inclusion-heavy trees of the C14 generator). Per job: one fault-free run, then EVERY single permanent fault on every path the fault-free run touched (inputs x {Missing, Unreadable, ReadError}, outputs x {Unwritable, WriteError}; Tier B: the errno variants at the syscall seam plus masked kinds). evaluations = plan/process executions. A baseline is non-trivial iff it read >=1 input file; a fault run is non-trivial iff its fault actually fired. distinct_nontrivial = distinct (job digest) baselines + distinct (job digest, path, kind) fired faults.".to_string(),
        "C10" => "Seeded simulated runs: 3-10 jobs over 1-4 threads with simulator-chosen hash keys, I/O-granular interleaving, server reuse, handle layout, environment variables, clock script, long histories, a job right after its failing twin (the same job with one injected error or I/O fault), several assemblies through the real FileServerReal; each job's record compared with the same job alone in the canonical environment (keys=0, fresh thread, fresh server, t0). evaluations = job executions compared. Non-trivial iff the job's record has >=2 hash-order-sensitive items (symbols/diagnostics/format parameters/defines) AND its environment differed from the reference in >=1 dimension; distinct by (job digest, environment digest).".to_string(),
        "C14" => "Seeded disk images + inclusion graphs + path spellings + containers + ranges + single read faults, rendered to real source files; safety invariants on the access log (confinement, termination, read-exactness) plus a reference include-expander written from the property statement, plus the slash-twin relation (one case in five executed again with every separator turned into the other style). evaluations = cases executed. Non-trivial iff the case has >=1 inclusion edge or inclusion-function call that reached the disk; distinct by case digest.".to_string(),
        _ => String::new(),
    }
}

pub fn real_vs_stub() -> serde_json::Value {
    serde_json::json!({
        "tier_lib_real": "everything under /repo/src except util/fileserver.rs::FileServerReal, main.rs, webasm/, util/windows_console.rs — incl. driver.rs (drive_from_commandline, option parsing, output groups), tokenizer, parser, include resolution, matcher, resolver, output builder, all formatters, Report::print_all",
        "tier_lib_stub": "SimFileServer (simulated POSIX disk behind customasm's own FileServer trait), exit-status mapping of main.rs, fd 1/2 captured in memfds; getrandom/clock_gettime replaced by simulator seams",
        "tier_lib_builds": "release profile (what `cargo install` gives) for every property; for C03 and C14 a further batch in the checked profile (release + overflow-checks + debug-assertions: the arithmetic of `cargo build` / `cargo test`)",
        "tier_proc_real": "the release customasm binary built from /repo's working tree (main.rs, FileServerReal, println!), the kernel's tmpfs path resolution",
        "tier_proc_simulated": "outcomes of intercepted libc calls (statx/stat/open/openat/read/write/close/getrandom/clock_gettime) under an LD_PRELOAD shim"
    })
}

pub fn assumptions(prop: &str) -> Vec<String> {
    let mut v = vec![
        "sampling over jobs/seeds: a clean batch is evidence, not proof".to_string(),
        "Tier A's disk is a model of POSIX path resolution without symlinks; Tier B runs the same job classes on the real file system".to_string(),
        "address-space layout and anything below the intercepted libc symbols are not controlled".to_string(),
    ];
    if prop == "C03" {
        v.push("fault set = the property's: single permanent faults on named input files and output paths; transient faults and stdout/stderr sink faults are out of scope".to_string());
    }
    v
}

fn arg<'a>(args: &'a [String], name: &str) -> Option<&'a str> {
    args.iter().position(|a| a == name).and_then(|i| args.get(i + 1)).map(|s| s.as_str())
}

fn main() {
    let args: Vec<String> = std::env::args().collect();
    let mode = args.get(1).map(|s| s.as_str()).unwrap_or("");
    let repo = arg(&args, "--repo").unwrap_or("/repo").to_string();
    // default: the tree this binary was built in (<verif>/target/release/sim),
    // so that subprocesses spawned without arguments (classify, ref-record)
    // use the same shim and the same customasm binary as their parent
    let verif_default = std::env::current_exe()
        .ok()
        .and_then(|p| p.parent().and_then(|p| p.parent()).and_then(|p| p.parent()).map(|p| p.to_string_lossy().to_string()))
        .filter(|p| std::path::Path::new(&format!("{}/MANIFEST.json", p)).exists())
        .unwrap_or_else(|| "/verif".to_string());
    let verif = arg(&args, "--verif").map(|s| s.to_string()).unwrap_or(verif_default);
    let seed: u64 = arg(&args, "--seed").and_then(|s| s.parse().ok()).or_else(|| std::env::var("VERIF_SEED").ok().and_then(|s| s.parse().ok())).unwrap_or(1);
    let tier = arg(&args, "--tier").map(|s| s.to_string()).or_else(|| std::env::var("VERIF_TIER").ok()).unwrap_or_else(|| "quick".to_string());
    seams::install_panic_hook();
    match mode {
        "worker" | "procworker" => {
            let chan = seams::init_channel();
            let a = worker::WorkerArgs {
                prop: arg(&args, "--prop").unwrap_or("C03").to_string(),
                tier,
                seed,
                from: arg(&args, "--from").and_then(|s| s.parse().ok()).unwrap_or(0),
                to: arg(&args, "--to").and_then(|s| s.parse().ok()).unwrap_or(1),
                stride: arg(&args, "--stride").and_then(|s| s.parse().ok()).unwrap_or(1),
                dump: match (arg(&args, "--dump-step"), arg(&args, "--dump-to")) {
                    (Some(k), Some(f)) => Some((k.parse().unwrap_or(0), f.to_string())),
                    _ => None,
                },
                repo,
                verif,
            };
            if mode == "worker" {
                worker::worker_main(&chan, a);
            } else {
                procsim::worker_main(&chan, a);
            }
        }
        "check" => {
            let a = orch::CheckArgs {
                prop: arg(&args, "--prop").unwrap_or("C03").to_string(),
                tier,
                seed,
                workers: arg(&args, "--workers").and_then(|s| s.parse().ok()).unwrap_or(16),
                runs: arg(&args, "--runs").and_then(|s| s.parse().ok()),
                proc_runs: arg(&args, "--proc-runs").and_then(|s| s.parse().ok()),
                checked_runs: arg(&args, "--checked-runs").and_then(|s| s.parse().ok()),
                repo,
                verif,
            };
            std::process::exit(orch::check_main(a));
        }
        "classify" => {
            // execute a replay file in this (fresh) process and print the
            // violations observed
            unsafe {
                let lim = libc::rlimit { rlim_cur: 60, rlim_max: 70 };
                libc::setrlimit(libc::RLIMIT_CPU, &lim);
            }
            worker::set_limits();
            let file = args.get(2).expect("file");
            let text = std::fs::read_to_string(file).expect("read replay");
            let r: replay::Replay = serde_json::from_str(&text).expect("parse replay");
            let chan = seams::init_channel();
            let v = classify(&r, &verif);
            chan.send(&format!("CLASSES {}", serde_json::to_string(&v).unwrap()));
        }
        "replay" => {
            let file = args.get(2).expect("file").clone();
            let text = std::fs::read_to_string(&file).expect("read replay");
            let r: replay::Replay = serde_json::from_str(&text).expect("parse replay");
            let tmpdir = format!("{}/replays/tmp", verif);
            let _ = std::fs::create_dir_all(&tmpdir);
            let got = minimize::classify_full(&r, &tmpdir, "replay");
            let same = got.iter().find(|v| v.class == r.violation.class || (r.violation.class.starts_with("I1-abort") && v.class.starts_with("I1-abort")));
            match same {
                Some(v) => {
                    println!("# reproduced {}: {}", v.class, orch::truncate(&v.detail, 600));
                    println!("VIOLATION property={} replay={}", r.property, file);
                    std::process::exit(1);
                }
                None => {
                    println!("# replay of {} no longer shows {} (observed: {:?})", file, r.violation.class, got.iter().map(|v| &v.class).collect::<Vec<_>>());
                    std::process::exit(0);
                }
            }
        }
        "ref-record" => {
            // the canonical environment: this fresh process executes one job
            // alone (keys 0, fresh thread, fresh server, clock t0)
            unsafe {
                let lim = libc::rlimit { rlim_cur: 60, rlim_max: 70 };
                libc::setrlimit(libc::RLIMIT_CPU, &lim);
            }
            worker::set_limits();
            let mut text = String::new();
            use std::io::Read;
            std::io::stdin().read_to_string(&mut text).expect("read job");
            let job: job::Job = serde_json::from_str(&text).expect("parse job");
            let chan = seams::init_channel();
            let res = plan::run_plan(&plan::SimPlan::single(job, vec![], &[0u8; 16], true, true));
            chan.send(&format!("RECORD {}", serde_json::to_string(&res.runs[0].record).unwrap()));
        }
        "show-pool" => {
            // debugging aid: print pool jobs and their canonical outcome
            let corpus = corpus::load(&repo);
            let from: usize = arg(&args, "--from").and_then(|s| s.parse().ok()).unwrap_or(0);
            let to: usize = arg(&args, "--to").and_then(|s| s.parse().ok()).unwrap_or(10);
            let only = arg(&args, "--kind").unwrap_or("").to_string();
            let chan = seams::init_channel();
            for k in from..to {
                let job = c10::pool_job(seed, k, &corpus);
                if !job.name.starts_with(&only) {
                    continue;
                }
                let res = plan::run_plan(&plan::SimPlan::single(job.clone(), vec![], &[0u8; 16], true, true));
                let rec = &res.runs[0].record;
                chan.send(&format!("{} {} argv={:?} outcome={:?} errors={} symbols={} first_error={}", k, job.name, job.argv, rec.outcome, rec.error_lines(), rec.lib.symbol_count, job::strip_ansi(&String::from_utf8_lossy(&rec.stderr)).lines().next().unwrap_or("")));
                if let Some(dir) = arg(&args, "--dump-dir") {
                    for (p, d) in job.disk.files() {
                        if p.ends_with(".asm") && p.starts_with("/w/proj") {
                            let _ = std::fs::write(format!("{}/{}-{}", dir, k, p.rsplit('/').next().unwrap_or("x")), d);
                        }
                    }
                }
                if arg(&args, "--text").is_some() {
                    for (p, d) in job.disk.files() {
                        if p.ends_with(".asm") && p.starts_with("/w/proj") {
                            chan.send(&String::from_utf8_lossy(d));
                        }
                    }
                }
            }
        }
        _ => {
            eprintln!("usage: sim check|worker|procworker|classify|replay …");
            std::process::exit(2);
        }
    }
}

pub fn classify(r: &replay::Replay, verif: &str) -> Vec<replay::Violation> {
    if r.proc.is_some() {
        return procsim::classify(r, verif);
    }
    match r.property.as_str() {
        "C03" => c03::classify(r),
        "C10" => c10::classify(r),
        "C14" => c14::classify(r),
        _ => vec![],
    }
}
