//! The repository's own corpus as disk images: every directory that directly
//! contains `.asm` files under /repo/tests and /repo/examples is an image
//! (all files below it, names relative to it), every `.asm` in it a root.

use crate::disk::Disk;
use crate::job::{Group, Job, Spec};
use std::path::Path;

pub const PROJ: &str = "/w/proj";

#[derive(Clone)]
pub struct Image {
    pub label: String,
    pub files: Vec<(String, Vec<u8>)>,
    pub roots: Vec<String>,
}

pub struct Corpus {
    pub images: Vec<Image>,
    /// (image index, root name)
    pub roots: Vec<(usize, String)>,
    /// every source text, for transplants
    pub texts: Vec<Vec<u8>>,
}

fn collect(dir: &Path, rel: &str, out: &mut Vec<(String, Vec<u8>)>) {
    let mut entries: Vec<_> = match std::fs::read_dir(dir) {
        Ok(r) => r.filter_map(|e| e.ok()).map(|e| e.path()).collect(),
        Err(_) => return,
    };
    entries.sort();
    for p in entries {
        let name = p.file_name().unwrap().to_string_lossy().to_string();
        if p.is_dir() {
            collect(&p, &format!("{}{}/", rel, name), out);
        } else if let Ok(data) = std::fs::read(&p) {
            if data.len() <= 256 * 1024 {
                out.push((format!("{}{}", rel, name), data));
            }
        }
    }
}

fn find_dirs(dir: &Path, out: &mut Vec<std::path::PathBuf>) {
    let mut entries: Vec<_> = match std::fs::read_dir(dir) {
        Ok(r) => r.filter_map(|e| e.ok()).map(|e| e.path()).collect(),
        Err(_) => return,
    };
    entries.sort();
    let has_asm = entries.iter().any(|p| p.is_file() && p.extension().map(|e| e == "asm").unwrap_or(false));
    if has_asm {
        out.push(dir.to_path_buf());
    }
    for p in entries {
        if p.is_dir() {
            find_dirs(&p, out);
        }
    }
}

pub fn load(repo: &str) -> Corpus {
    let mut dirs = Vec::new();
    find_dirs(&Path::new(repo).join("tests"), &mut dirs);
    find_dirs(&Path::new(repo).join("examples"), &mut dirs);
    let mut images = Vec::new();
    let mut roots = Vec::new();
    let mut texts = Vec::new();
    for d in dirs {
        let mut files = Vec::new();
        collect(&d, "", &mut files);
        let label = d.strip_prefix(repo).unwrap_or(&d).to_string_lossy().trim_start_matches('/').to_string();
        let rs: Vec<String> = files.iter().filter(|(n, _)| !n.contains('/') && n.ends_with(".asm")).map(|(n, _)| n.clone()).collect();
        let idx = images.len();
        for r in &rs {
            roots.push((idx, r.clone()));
        }
        for (n, data) in &files {
            if n.ends_with(".asm") {
                texts.push(data.clone());
            }
        }
        images.push(Image { label, files, roots: rs });
    }
    Corpus { images, roots, texts }
}

impl Image {
    pub fn disk(&self) -> Disk {
        let mut d = Disk::new(PROJ);
        for (n, data) in &self.files {
            d.add_file(n, data.clone());
        }
        // sentinels outside the project: nothing in the corpus may reach them
        d.add_file("/w/sentinel.asm", b"#d8 0xEE ; sentinel\n".to_vec());
        d.add_file("/sentinel.bin", b"SENTINEL".to_vec());
        d
    }

    pub fn text_of(&self, name: &str) -> Option<&Vec<u8>> {
        self.files.iter().find(|(n, _)| n == name).map(|(_, d)| d)
    }
}

/// The corpus's own `; command:` line for a root, parsed into a Spec when it
/// only uses the forms the corpus uses; otherwise a free-form argv.
pub fn corpus_command(root: &str, text: &[u8]) -> Option<(Vec<String>, Option<Spec>)> {
    let text = String::from_utf8_lossy(text);
    for line in text.lines() {
        if let Some(pos) = line.find("; command: ") {
            let args: Vec<String> = line[pos + "; command: ".len()..].split(' ').map(|s| s.trim().to_string()).map(|a| if a == "[file]" { root.to_string() } else { a }).collect();
            let mut argv = vec!["customasm".to_string()];
            argv.extend(args.iter().cloned());
            return Some((argv, parse_spec(&args)));
        }
    }
    None
}

fn parse_spec(args: &[String]) -> Option<Spec> {
    let mut spec = Spec::default();
    let mut g = Group { format: None, out: None, print: false };
    let mut i = 0;
    while i < args.len() {
        let a = &args[i];
        let next = args.get(i + 1);
        if a == "--" {
            spec.groups.push(g);
            g = Group { format: None, out: None, print: false };
        } else if a == "-f" {
            g.format = Some(next?.clone());
            i += 1;
        } else if let Some(r) = a.strip_prefix("-f") {
            g.format = Some(r.to_string());
        } else if a == "-o" {
            g.out = Some(next?.clone());
            i += 1;
        } else if a == "-d" || a == "--define" {
            spec.defines.push(next?.clone());
            i += 1;
        } else if let Some(r) = a.strip_prefix("--define=") {
            spec.defines.push(r.to_string());
        } else if let Some(r) = a.strip_prefix("-d") {
            spec.defines.push(r.to_string());
        } else if a == "-t" {
            spec.iters = Some(next?.clone());
            i += 1;
        } else if let Some(r) = a.strip_prefix("--iters=") {
            spec.iters = Some(r.to_string());
        } else if let Some(r) = a.strip_prefix("--color=") {
            spec.color = Some(r.to_string());
        } else if a == "-q" {
            spec.quiet = true;
        } else if a == "-p" {
            g.print = true;
        } else if a.starts_with('-') {
            return None;
        } else {
            spec.roots.push(a.clone());
        }
        i += 1;
    }
    spec.groups.push(g);
    // the rendering must denote the same command; only keep specs whose
    // canonical rendering is equivalent by construction (roots first)
    Some(spec)
}

pub fn corpus_job(c: &Corpus, ridx: usize) -> Job {
    let (ii, root) = &c.roots[ridx];
    let img = &c.images[*ii];
    let disk = img.disk();
    let name = format!("corpus:{}/{}", img.label, root);
    if let Some(text) = img.text_of(root) {
        if let Some((argv, spec)) = corpus_command(root, text) {
            return match spec {
                Some(s) => Job { name, disk, argv: s.render(), use_std: true, spec: Some(s) },
                None => Job { name, disk, argv, use_std: true, spec: None },
            };
        }
    }
    Job::from_spec(&name, disk, Spec::simple(root))
}
