//! C14 — file inclusion is relative, confined, acyclic and once-only where
//! asked. Seeded disk images, inclusion graphs, path spellings, containers
//! (top level, rule, function, asm block defined in another directory),
//! ranges and single read faults; judged by safety invariants on the access
//! log and by the reference include-expander of model14.rs.

use crate::corpus::{Corpus, PROJ};
use crate::disk::Disk;
use crate::fs::{Fault, FaultKind, Op};
use crate::job::{Group, Job, Outcome, Record, Spec};
use crate::model14::{self, ErrClass, Expected};
use crate::plan::SimPlan;
use crate::prng::{digest128, hex128, Rng};
use crate::replay::{Replay, Violation};
use crate::worker::Ctx;
use serde::{Deserialize, Serialize};

#[derive(Clone, Copy, Debug, PartialEq, Eq, Serialize, Deserialize)]
pub enum IncKind {
    Incbin,
    Incbinstr,
    Inchexstr,
}

#[derive(Clone, Copy, Debug, PartialEq, Eq, Serialize, Deserialize)]
pub enum Via {
    /// `#d incbin(..)` written in the file itself
    Direct,
    /// through a rule whose production (holding the path) is in the
    /// definitions file
    Rule,
    /// through a `#fn` whose body (holding the path) is in the definitions file
    Fn,
    /// through a rule in the definitions file whose production is an `asm`
    /// block invoking the rule that holds the path
    AsmBlock,
    /// the call is an argument expression of an instruction in the file
    /// itself; the matching rule lives in the definitions file
    Arg,
    /// as Arg, but the argument belongs to a nested (subruledef) match
    NestedArg,
    /// the path is a string constant declared in the file itself and the
    /// call names the constant
    ConstPath,
    /// the call stands in a directive that emits nothing (`#assert f(..) >= 0`)
    Assert,
    /// the call defines a constant that nothing uses
    UnusedConst,
    /// the start of the range is written as the difference of two labels
    /// declared *after* the call, around `start` zero bytes: its value is only
    /// known once the addresses have settled
    LabelRange,
}

#[derive(Clone, Debug, PartialEq, Eq, Serialize, Deserialize)]
pub enum Item {
    Marker(u8),
    Include(String),
    /// `#if true { #include "…" }` — an inclusion inside a conditional block
    IfInclude(String),
    IncFn { kind: IncKind, spelling: String, start: Option<usize>, len: Option<usize>, via: Via },
    /// a comment line holding bytes that are not valid UTF-8 (a Latin-1
    /// letter, 0xFF, a lone continuation byte): source text is read lossily,
    /// a comment is a comment
    OddComment(u8),
    /// a label declaration (global `g<id>:` or local `.l<id>:`): two splices
    /// of one file are two declarations, each under the global label that
    /// precedes its own splice point
    Label { local: bool, id: u8 },
}

#[derive(Clone, Debug, PartialEq, Eq, Serialize, Deserialize)]
pub struct CFile {
    /// canonical project-relative path
    pub path: String,
    pub once: bool,
    pub items: Vec<Item>,
    /// where the `#once` line stands among the items (0 = first line)
    #[serde(default)]
    pub once_pos: usize,
}

#[derive(Clone, Debug, PartialEq, Eq, Serialize, Deserialize)]
pub struct DataFile {
    pub path: String,
    #[serde(with = "crate::disk::b64")]
    pub content: Vec<u8>,
}

#[derive(Clone, Debug, PartialEq, Eq, Serialize, Deserialize)]
pub struct Case {
    pub files: Vec<CFile>,
    pub data: Vec<DataFile>,
    /// root spellings on the command line (relative to the project = cwd)
    pub roots: Vec<String>,
    /// file holding the rule/function definitions for Via::{Rule,Fn,AsmBlock}
    pub defs_path: Option<String>,
    /// a real directory literally named `<std>` inside the project
    pub std_dir: bool,
    pub fault: Option<Fault>,
    /// write the output over this data file of the case (patching an image in
    /// place): every input is read before any output is written, so what the
    /// inclusion functions deliver is the content before the run
    #[serde(default)]
    pub out_over: Option<String>,
}

pub const SENTINEL_ASM: &[u8] = b"#d8 0xEE, 0xED, 0xEC, 0xEB ; sentinel outside the project\n";
pub const SENTINEL_BITS: &str = "11101110111011011110110011101011";
pub const SENTINEL_BIN: &[u8] = b"\xEE\xED\xEC\xEBSENTINEL";

fn esc(s: &str) -> String {
    s.replace('\\', "\\\\").replace('"', "\\\"")
}

impl Case {
    /// project-relative name of the (single) output file
    pub fn out_name(&self) -> String {
        self.out_over.clone().unwrap_or_else(|| "out.txt".to_string())
    }

    pub fn digest(&self) -> String {
        hex128(digest128(serde_json::to_string(self).unwrap().as_bytes()))
    }

    /// Render the case to a disk image and a command line.
    pub fn render(&self) -> Job {
        let mut disk = Disk::new(PROJ);
        // what lies outside the project
        disk.add_file("/w/sentinel.asm", SENTINEL_ASM.to_vec());
        disk.add_file("/w/sentinel.bin", SENTINEL_BIN.to_vec());
        disk.add_file("/sentinel.asm", SENTINEL_ASM.to_vec());
        disk.add_file("/sentinel.bin", SENTINEL_BIN.to_vec());
        disk.add_file("/w/main.asm", SENTINEL_ASM.to_vec());
        disk.add_file("/w/lib/a.asm", SENTINEL_ASM.to_vec());
        disk.add_file("/w/data.bin", SENTINEL_BIN.to_vec());
        disk.add_file("/etc/passwd", SENTINEL_BIN.to_vec());
        // empty directories a non-canonical root spelling can pass through
        disk.mkdir_p(&format!("{}/build", PROJ));
        disk.mkdir_p(&format!("{}/sub", PROJ));
        // (the files of a real `<std>` directory are ordinary case files,
        // added by the generator, so the model knows them)
        for d in &self.data {
            disk.add_file(&d.path, d.content.clone());
        }
        // definitions: one rule / function per IncFn that needs one
        let mut defs = String::new();
        let mut counter = 0usize;
        let mut texts: Vec<(String, String)> = Vec::new();
        for f in &self.files {
            let mut t = String::new();
            let once_at = if f.once { Some(f.once_pos.min(f.items.len())) } else { None };
            for (item_index, item) in f.items.iter().enumerate() {
                if once_at == Some(item_index) {
                    t.push_str("#once\n");
                }
                match item {
                    Item::Marker(b) => t.push_str(&format!("#d8 {}\n", b)),
                    Item::Include(sp) => t.push_str(&format!("#include \"{}\"\n", esc(sp))),
                    Item::IfInclude(sp) => t.push_str(&format!("#if true\n{{\n    #include \"{}\"\n}}\n", esc(sp))),
                    Item::OddComment(k) => t.push_str(&format!("; caf{} au lait\n", ['\u{e000}', '\u{e001}', '\u{e002}', '\u{e003}'][(*k % 4) as usize])),
                    Item::Label { local, id } => t.push_str(&if *local { format!(".l{}:\n", id) } else { format!("g{}:\n", id) }),
                    Item::IncFn { kind, spelling, start, len, via } => {
                        let fname = match kind {
                            IncKind::Incbin => "incbin",
                            IncKind::Incbinstr => "incbinstr",
                            IncKind::Inchexstr => "inchexstr",
                        };
                        let mut call = format!("{}(\"{}\"", fname, esc(spelling));
                        let k = counter;
                        if let Some(s) = start {
                            if *via == Via::LabelRange {
                                call.push_str(&format!(", lr{}_b - lr{}_a", k, k));
                            } else {
                                call.push_str(&format!(", {}", s));
                            }
                        }
                        if let Some(l) = len {
                            if start.is_none() {
                                call.push_str(", 0");
                            }
                            call.push_str(&format!(", {}", l));
                        }
                        call.push(')');
                        counter += 1;
                        match via {
                            Via::Direct => t.push_str(&format!("#d {}\n", call)),
                            Via::LabelRange => {
                                t.push_str(&format!("#d {}\n", call));
                                if let Some(s) = start {
                                    t.push_str(&format!("lr{}_a:\n", k));
                                    for _ in 0..*s {
                                        t.push_str("#d8 0\n");
                                    }
                                    t.push_str(&format!("lr{}_b:\n", k));
                                }
                            }
                            Via::Assert => t.push_str(&format!("#assert sizeof({}) >= 0\n", call)),
                            Via::UnusedConst => t.push_str(&format!("unused{} = {}\n", k, call)),
                            Via::ConstPath => {
                                let quoted = format!("\"{}\"", esc(spelling));
                                t.push_str(&format!("path{} = {}\n", k, quoted));
                                t.push_str(&format!("#d {}\n", call.replacen(&quoted, &format!("path{}", k), 1)));
                            }
                            Via::Rule => {
                                defs.push_str(&format!("#ruledef\n{{\n    emit{} => {}\n}}\n", k, call));
                                t.push_str(&format!("emit{}\n", k));
                            }
                            Via::Fn => {
                                defs.push_str(&format!("#fn get{}() => {}\n", k, call));
                                t.push_str(&format!("#d get{}()\n", k));
                            }
                            Via::AsmBlock => {
                                defs.push_str(&format!("#ruledef\n{{\n    inner{} => {}\n    wrap{} => asm {{ inner{} }}\n}}\n", k, call, k, k));
                                t.push_str(&format!("wrap{}\n", k));
                            }
                            Via::Arg => {
                                defs.push_str(&format!("#ruledef\n{{\n    pass{} {{v}} => v\n}}\n", k));
                                t.push_str(&format!("pass{} {}\n", k, call));
                            }
                            Via::NestedArg => {
                                defs.push_str(&format!("#subruledef operand{}\n{{\n    imm {{v}} => v\n}}\n#ruledef\n{{\n    outer{} {{o: operand{}}} => o\n}}\n", k, k, k));
                                t.push_str(&format!("outer{} imm {}\n", k, call));
                            }
                        }
                    }
                }
            }
            if once_at == Some(f.items.len()) {
                t.push_str("#once\n");
            }
            texts.push((f.path.clone(), t));
        }
        for (p, t) in texts {
            let mut text = t;
            if Some(&p) == self.defs_path.as_ref() {
                text.push_str(&defs);
            }
            // the private-use placeholders of OddComment become raw bytes
            let mut bytes: Vec<u8> = Vec::with_capacity(text.len());
            for ch in text.chars() {
                match ch {
                    '\u{e000}' => bytes.push(0xE9),
                    '\u{e001}' => bytes.push(0xFF),
                    '\u{e002}' => bytes.push(0x80),
                    '\u{e003}' => bytes.extend_from_slice(&[0xC3, 0x28]),
                    c => {
                        let mut b = [0u8; 4];
                        bytes.extend_from_slice(c.encode_utf8(&mut b).as_bytes());
                    }
                }
            }
            disk.add_file(&p, bytes);
        }
        let mut spec = Spec::default();
        spec.roots = self.roots.clone();
        spec.groups = vec![Group { format: Some("binstr".to_string()), out: Some(self.out_name()), print: false }];
        spec.quiet = true;
        Job::from_spec("c14", disk, spec)
    }
}

// ------------------------------------------------------------------ generator

fn dir_of(path: &str) -> Vec<String> {
    let mut c: Vec<String> = path.split('/').map(|s| s.to_string()).collect();
    c.pop();
    c
}

/// Plain relative spelling of `target` as seen from the directory of `from`.
fn rel_spelling(from: &str, target: &str) -> String {
    let fd = dir_of(from);
    let tc: Vec<String> = target.split('/').map(|s| s.to_string()).collect();
    let mut common = 0;
    while common < fd.len() && common + 1 < tc.len() && fd[common] == tc[common] {
        common += 1;
    }
    let mut parts: Vec<String> = Vec::new();
    for _ in common..fd.len() {
        parts.push("..".to_string());
    }
    for c in &tc[common..] {
        parts.push(c.clone());
    }
    parts.join("/")
}

/// A spelling for an edge from `from` to the project file `target`, in one of
/// the styles the property enumerates. Some styles deliberately name
/// something else (outside the project, not found, `<std>` tricks).
pub fn draw_spelling(rng: &mut Rng, from: &str, target: &str, is_data: bool, std_dir: bool, clean: bool) -> String {
    let rel = rel_spelling(from, target);
    let depth = dir_of(from).len();
    let ext = if is_data { "bin" } else { "asm" };
    // `clean` cases use only spellings the property requires to work, so
    // that deep graphs (chains, diamonds, cycles, #once) are actually expanded
    let style = if clean { *rng.pick(&[0usize, 0, 0, 0, 30, 38, 46, 54, 60, 74, 100, 101, 102, 108]) } else { rng.below(118) };
    match style {
        // a trailing separator (what it means is not stated: only the safety
        // invariants and the slash-twin relation judge these)
        // a path *through* a file, and a component longer than any file
        // system allows: both simply name nothing
        116 => format!("{}/inner.{}", rel, ext),
        117 => format!("{}{}.{}", "n".repeat(300), rel.replace('/', "_"), ext),
        113 => format!("{}/", rel),
        114 => format!("{}\\", rel.replace('/', "\\")),
        115 => format!("{}/.", rel),
        109 => format!(" ../sentinel.{}", ext),
        110 => format!("\t../{}", rng.pick(&["sentinel.asm", "data.bin", "main.asm"])),
        111 => format!("  ../sub/../sentinel.{}", ext),
        112 => format!(" {}", rel),
        108 => format!("\\{}", target.replace('/', "\\")),
        104 => format!("<std>//{}", target),
        105 => format!("<std>/\\{}", target),
        106 => format!("<std>///{}", target),
        107 => format!("<std>/./{}", target),
        100 => format!(".//{}", rel),
        101 => format!("././/{}", rel),
        102 => rel.replacen('/', "//", 1),
        103 => format!("./{}", rel.replacen('/', "/./", 1)),
        0..=29 => rel,
        30..=37 => format!("./{}", rel),
        38..=45 => format!("{}/../{}", rng.pick(&["x", "lib", "nosuchdir", "a.asm", ".."]).replace("..", "sub"), rel),
        46..=53 => format!("/{}", target),
        54..=59 => rel.replace('/', "\\"),
        60..=62 => format!(".\\{}", rel.replace('/', "\\")),
        63..=65 => {
            // doubled / trailing separators (silent cases)
            if rng.chance(1, 2) {
                rel.replacen('/', "//", 1)
            } else {
                format!("{}/", rel)
            }
        }
        66..=73 => {
            // enough `..` to leave the project
            let ups = depth + rng.range(1, 2);
            format!("{}{}", "../".repeat(ups), rng.pick(&[format!("sentinel.{}", ext), format!("main.{}", ext), "lib/a.asm".to_string(), format!("data.{}", ext), format!("proj/{}", target)]))
        }
        74..=77 => {
            // exactly up to the project root, then back down: stays inside
            format!("{}{}", "../".repeat(depth), target)
        }
        78..=80 => format!("/../sentinel.{}", ext),
        81..=83 => format!("/etc/passwd"),
        84..=86 => format!("<std>/../{}", target),
        87..=89 => format!("<std>/../../sentinel.{}", ext),
        90..=91 => format!("<std>/x.{}", ext),
        92 => "<std>/cpu/6502.asm".to_string(),
        93..=94 => {
            if std_dir {
                format!("{}./<std>/x.{}", "../".repeat(depth), ext)
            } else {
                rel
            }
        }
        95 => ".".to_string(),
        96 => "..".to_string(),
        97 => format!("{}.missing", rel),
        98 => format!("sub/<std>/../../{}", rel),
        _ => format!("\\..\\..\\sentinel.{}", ext),
    }
}

/// A chain of 55–80 files, each including the next (deeper than any bound a
/// recursion guard might reuse from elsewhere), optionally closed into a cycle.
fn long_chain_case(rng: &mut Rng) -> Case {
    let n = rng.range(55, 80);
    let cyclic = rng.chance(1, 4);
    let mut files: Vec<CFile> = Vec::new();
    let path = |k: usize| if k == 0 { "main.asm".to_string() } else { format!("chain/f{}.asm", k) };
    for k in 0..n {
        let mut items = vec![Item::Marker((k % 200) as u8 + 1)];
        if k + 1 < n {
            items.push(Item::Include(rel_spelling(&path(k), &path(k + 1))));
        } else if cyclic {
            items.push(Item::Include(rel_spelling(&path(k), &path(rng.below(n)))));
        }
        if rng.chance(1, 3) {
            items.push(Item::Marker(0xF0));
        }
        files.push(CFile { path: path(k), once: false, items, once_pos: 0 });
    }
    Case { files, data: vec![], roots: vec!["main.asm".to_string()], defs_path: None, std_dir: false, fault: None, out_over: None }
}

/// One file spliced two or three times, each time under another global
/// label, declaring local labels of its own: every splice is a declaration.
fn twice_included_labels_case(rng: &mut Rng) -> Case {
    let inc = rng.pick(&["part.asm", "lib/part.asm", "a/b/part.asm"]).to_string();
    let mut main = CFile { path: "main.asm".to_string(), once: false, items: vec![], once_pos: 0 };
    let times = rng.range(2, 3);
    for t in 0..times {
        main.items.push(Item::Label { local: false, id: t as u8 + 1 });
        if rng.chance(1, 2) {
            main.items.push(Item::Marker(0x20 + t as u8));
        }
        main.items.push(Item::Include(rel_spelling("main.asm", &inc)));
    }
    let mut part = CFile { path: inc, once: false, items: vec![], once_pos: 0 };
    for l in 0..rng.range(1, 3) {
        part.items.push(Item::Label { local: true, id: 0x40 + l as u8 });
        part.items.push(Item::Marker(0x50 + l as u8));
    }
    Case { files: vec![main, part], data: vec![], roots: vec!["main.asm".to_string()], defs_path: None, std_dir: false, fault: None, out_over: None }
}

pub fn draw_case(rng: &mut Rng) -> Case {
    if rng.chance(1, 150) {
        return long_chain_case(rng);
    }
    if rng.chance(1, 40) {
        return twice_included_labels_case(rng);
    }
    let clean = rng.chance(1, 2);
    let dirs = ["", "", "lib/", "src/", "lib/deep/", "a/b/c/"];
    let nfiles = rng.range(1, 6);
    let mut files: Vec<CFile> = Vec::new();
    let names = ["main", "a", "b", "c", "d", "e", "f"];
    for i in 0..nfiles {
        let dir = if i == 0 { *rng.pick(&["", "", "", "src/", "a/b/"]) } else { *rng.pick(&dirs) };
        files.push(CFile { path: format!("{}{}.asm", dir, names[i]), once: rng.chance(1, 3), items: vec![], once_pos: 0 });
    }
    // data files
    let ndata = rng.range(0, 3);
    let mut data: Vec<DataFile> = Vec::new();
    for j in 0..ndata {
        let dir = *rng.pick(&dirs);
        let kind = rng.below(3);
        let len = rng.range(0, 6);
        let content: Vec<u8> = match kind {
            0 => {
                let mut v: Vec<u8> = (0..len).map(|k| 0x80 + (j * 8 + k) as u8).collect();
                if rng.chance(1, 8) {
                    // a binary file that happens to start with the bytes of a UTF-8 BOM
                    let mut b = vec![0xEF, 0xBB, 0xBF];
                    b.extend_from_slice(&v);
                    v = b;
                }
                v
            }
            1 => {
                let mut s = String::new();
                for k in 0..(len * 2) {
                    s.push(if (k * 7 + j * 3) % 3 == 0 { '1' } else { '0' });
                    if k == 3 && rng.chance(1, 2) {
                        s.push('_');
                    }
                }
                if rng.chance(1, 3) {
                    s.push('\n');
                }
                if rng.chance(1, 10) && !s.is_empty() {
                    // a sign is not a digit
                    s.insert(0, *rng.pick(&['+', '-']));
                }
                let mut b = s.into_bytes();
                if rng.chance(1, 12) && b.len() >= 2 {
                    // a byte that is not text at all, in the middle: not a digit
                    let at = b.len() / 2;
                    b.insert(at, *rng.pick(&[0xFFu8, 0x80, 0xE9]));
                }
                b
            }
            _ => {
                let mut s = String::new();
                for k in 0..(len * 2) {
                    s.push(std::char::from_digit(((k * 5 + j * 3 + 1) % 16) as u32, 16).unwrap());
                    if k == 1 && rng.chance(1, 3) {
                        s.push(' ');
                    }
                }
                let mut b = s.into_bytes();
                if rng.chance(1, 12) && b.len() >= 2 {
                    let at = b.len() / 2;
                    b.insert(at, *rng.pick(&[0xFFu8, 0x80, 0xE9]));
                }
                b
            }
        };
        data.push(DataFile { path: format!("{}{}.{}", dir, ["data", "blob", "tab"][j], ["bin", "bits", "hex"][kind]), content });
    }
    let std_dir = rng.chance(1, 3);
    if std_dir {
        // a real directory literally named `<std>` inside the project; its
        // files are reachable as `./<std>/x.asm`, never as `<std>/x.asm`
        data.push(DataFile { path: "<std>/x.bin".to_string(), content: vec![0xD2, 0xD3] });
    }
    // definitions file (for Rule / Fn / AsmBlock containers)
    let want_defs = rng.chance(1, 2) && !data.is_empty();
    let mut defs_path = None;
    if want_defs {
        let p = format!("{}defs.asm", rng.pick(&["", "lib/", "inc/", "lib/deep/", "a/"]));
        files.push(CFile { path: p.clone(), once: true, items: vec![], once_pos: 0 });
        defs_path = Some(p);
    }
    let nsrc = nfiles;
    if std_dir {
        files.push(CFile { path: "<std>/x.asm".to_string(), once: false, items: vec![Item::Marker(0xD1)], once_pos: 0 });
        files.push(CFile { path: "<std>/cpu/6502.asm".to_string(), once: false, items: vec![Item::Marker(0xD4)], once_pos: 0 });
    }
    // items: markers, include edges, inclusion-function calls
    let mut marker = 0x10u8;
    for i in 0..nsrc {
        let nitems = rng.range(1, 4);
        let mut items = Vec::new();
        if i == 0 {
            if let Some(dp) = &defs_path {
                let from = files[0].path.clone();
                items.push(Item::Include(rel_spelling(&from, dp)));
            }
        }
        for _ in 0..nitems {
            match rng.below(10) {
                0..=2 => {
                    if rng.chance(1, 12) {
                        items.push(Item::OddComment(rng.below(4) as u8));
                    }
                    if rng.chance(1, 5) {
                        // a label: global in the including files mostly,
                        // local in the included ones
                        let local = if i == 0 { rng.chance(1, 4) } else { rng.chance(3, 4) };
                        items.push(Item::Label { local, id: marker });
                    }
                    items.push(Item::Marker(marker));
                    marker = marker.wrapping_add(1);
                }
                3..=6 => {
                    // edge to another (or the same) file: forward edges mostly,
                    // back edges sometimes (cycles, self-inclusion)
                    let t = if rng.chance(3, 4) && i + 1 < nsrc { rng.range(i + 1, nsrc - 1) } else { rng.below(nsrc) };
                    let from = files[i].path.clone();
                    let target = files[t].path.clone();
                    let sp = draw_spelling(rng, &from, &target, false, std_dir, clean);
                    if rng.chance(1, 25) {
                        items.push(Item::IfInclude(sp));
                    } else {
                        items.push(Item::Include(sp));
                    }
                }
                _ => {
                    if rng.chance(1, 25) {
                        // bytes of a file of the built-in library
                        let names = crate::job::std_file_names();
                        let name = rng.pick(&names).to_string();
                        let n = crate::job::std_file_content(&name).map(|c| c.len()).unwrap_or(0);
                        let s0 = if clean { rng.below(n.max(1)) } else { *rng.pick(&[0, 1, n.saturating_sub(1), n, n + 1]) };
                        let l0 = if clean { rng.range(1, n.saturating_sub(s0).min(6).max(1)) } else { rng.below(8) };
                        let via = if defs_path.is_some() { *rng.pick(&[Via::Direct, Via::Rule, Via::Fn, Via::AsmBlock, Via::Arg]) } else { Via::Direct };
                        items.push(Item::IncFn { kind: IncKind::Incbin, spelling: name, start: Some(s0), len: if rng.chance(4, 5) { Some(l0) } else { None }, via });
                        continue;
                    }
                    if data.is_empty() {
                        items.push(Item::Marker(marker));
                        marker = marker.wrapping_add(1);
                        continue;
                    }
                    let d = rng.below(data.len());
                    let kind = match data[d].path.rsplit('.').next() {
                        Some("bin") => IncKind::Incbin,
                        Some("bits") => IncKind::Incbinstr,
                        _ => IncKind::Inchexstr,
                    };
                    let via = if defs_path.is_some() { *rng.pick(&[Via::Direct, Via::Rule, Via::Fn, Via::AsmBlock, Via::Fn, Via::Arg, Via::NestedArg, Via::ConstPath, Via::Assert, Via::UnusedConst, Via::LabelRange]) } else { *rng.pick(&[Via::Direct, Via::Direct, Via::ConstPath, Via::Assert, Via::UnusedConst, Via::LabelRange]) };
                    // (label arithmetic needs byte-sized data and a valid range)
                    let via = if via == Via::LabelRange && !(clean && kind == IncKind::Incbin) { Via::Direct } else { via };
                    let container = match via {
                        Via::Direct | Via::Arg | Via::NestedArg | Via::ConstPath | Via::Assert | Via::UnusedConst | Via::LabelRange => files[i].path.clone(),
                        _ => defs_path.clone().unwrap(),
                    };
                    let spelling = draw_spelling(rng, &container, &data[d].path, true, std_dir, clean);
                    let n = match kind {
                        IncKind::Incbin => data[d].content.len(),
                        _ => data[d].content.iter().filter(|b| b.is_ascii_hexdigit()).count(),
                    };
                    let (start, len) = if clean && n > 0 {
                        let s0 = rng.below(n);
                        match rng.below(3) {
                            0 => (None, None),
                            1 => (Some(s0), None),
                            _ => (Some(s0), Some(rng.range(1, n - s0))),
                        }
                    } else {
                        match rng.below(4) {
                            0 => (None, None),
                            1 => (Some(rng.below(n + 3)), None),
                            _ => (Some(rng.below(n + 3)), Some(rng.below(n + 3))),
                        }
                    };
                    items.push(Item::IncFn { kind, spelling, start, len, via });
                }
            }
        }
        files[i].items.extend(items);
    }
    for f in files.iter_mut() {
        if f.once && rng.chance(1, 3) {
            f.once_pos = rng.below(f.items.len() + 1);
        }
    }
    // a file whose name differs from another one's only in letter case
    // (distinct files on a case-sensitive disk), included next to it
    if nsrc >= 2 && rng.chance(1, 12) {
        let victim = rng.range(1, nsrc - 1);
        let p = files[victim].path.clone();
        let twin = match p.rfind('/') {
            Some(i) => format!("{}{}{}", &p[..i + 1], p[i + 1..i + 2].to_uppercase(), &p[i + 2..]),
            None => format!("{}{}", p[..1].to_uppercase(), &p[1..]),
        };
        if twin != p && !files.iter().any(|f| f.path == twin) {
            files.push(CFile { path: twin.clone(), once: rng.chance(1, 3), items: vec![Item::Marker(0x77)], once_pos: 0 });
            let from = files[0].path.clone();
            let sp1 = rel_spelling(&from, &twin);
            let sp2 = rel_spelling(&from, &p);
            files[0].items.push(Item::Include(sp1));
            files[0].items.push(Item::Include(sp2.clone()));
            if rng.chance(1, 2) {
                // a third spelling that matches both ignoring case and names no file
                let up = match sp2.rfind('/') {
                    Some(i) => format!("{}{}", &sp2[..i + 1], sp2[i + 1..].to_uppercase()),
                    None => sp2.to_uppercase(),
                };
                files[0].items.push(Item::Include(up));
            }
        }
    }
    // roots
    let mut roots = vec![files[0].path.clone()];
    match rng.below(20) {
        0 => roots[0] = format!("./{}", files[0].path),
        3 | 4 | 5 => roots[0] = format!("build/../{}", files[0].path),
        6 => roots[0] = format!("sub/../build/../{}", files[0].path),
        7 => roots[0] = files[0].path.replacen('/', "//", 1),
        // the project file named through the parent directory (the root is
        // still inside the working directory; what its includes may name is
        // then judged by the safety invariants only)
        8 | 9 => roots[0] = format!("../proj/{}", files[0].path),
        1 if nsrc > 1 => roots.push(files[1].path.clone()),
        2 if nsrc > 1 => {
            let second = files[rng.below(nsrc)].path.clone();
            roots.push(second);
        }
        _ => {}
    }
    // a single permanent read fault on one file of the graph
    let fault = if rng.chance(1, 4) {
        let mut all: Vec<String> = files.iter().map(|f| f.path.clone()).collect();
        all.extend(data.iter().map(|d| d.path.clone()));
        let p = rng.pick(&all).clone();
        Some(Fault { path: format!("{}/{}", PROJ, p), kind: *rng.pick(&[FaultKind::Missing, FaultKind::Unreadable, FaultKind::ReadError]) })
    } else {
        None
    };
    // now and then the output goes over one of the data files
    let out_over = if !data.is_empty() && rng.chance(1, 20) { Some(data[rng.below(data.len())].path.clone()) } else { None };
    Case { files, data, roots, defs_path, std_dir, fault, out_over }
}

/// The exhaustive range grid (e): one data file of each kind and length
/// 0..=6, every (start, length) in [0, len+2]^2 plus (start) and ().
pub fn range_case(kind: IncKind, n: usize, start: Option<usize>, len: Option<usize>, via: Via) -> Case {
    let content: Vec<u8> = match kind {
        IncKind::Incbin => (0..n).map(|k| 0xA0 + k as u8).collect(),
        IncKind::Incbinstr => (0..n).map(|k| if k % 3 == 0 { b'1' } else { b'0' }).collect(),
        IncKind::Inchexstr => (0..n).map(|k| b"a5c3e7"[k % 6]).collect(),
    };
    let dpath = "lib/data.dat".to_string();
    let mut files = vec![CFile { path: "main.asm".to_string(), once: false, items: vec![], once_pos: 0 }];
    let mut defs_path = None;
    if !matches!(via, Via::Direct | Via::ConstPath) {
        files.push(CFile { path: "lib/defs.asm".to_string(), once: true, items: vec![], once_pos: 0 });
        defs_path = Some("lib/defs.asm".to_string());
        files[0].items.push(Item::Include("lib/defs.asm".to_string()));
    }
    let spelling = if matches!(via, Via::Direct | Via::Arg | Via::NestedArg | Via::ConstPath) { "lib/data.dat".to_string() } else { "data.dat".to_string() };
    files[0].items.push(Item::Marker(0x11));
    files[0].items.push(Item::IncFn { kind, spelling, start, len, via });
    files[0].items.push(Item::Marker(0x12));
    Case { files, data: vec![DataFile { path: dpath, content }], roots: vec!["main.asm".to_string()], defs_path, std_dir: false, fault: None, out_over: None }
}

// --------------------------------------------------------------------- oracle

fn bits_of_output(rec: &Record) -> Option<String> {
    // (one output group per case: its file, whatever it is called)
    rec.writes.iter().rev().find(|w| w.complete).map(|w| String::from_utf8_lossy(&w.data).to_string())
}

/// The case with every conditional include removed (what the assembler
/// effectively sees today: `#include` inside `#if` is silently ignored).
fn without_if_includes(case: &Case) -> Case {
    let mut c = case.clone();
    for f in c.files.iter_mut() {
        f.items.retain(|i| !matches!(i, Item::IfInclude(_)));
    }
    c
}

pub fn check(case: &Case, job: &Job, rec: &Record) -> Vec<Violation> {
    let v = check_inner(case, job, rec);
    if !v.is_empty() && case.files.iter().any(|f| f.items.iter().any(|i| matches!(i, Item::IfInclude(_)))) {
        // Is the whole discrepancy explained by the conditional includes
        // having been ignored? Then it is that one specific defect.
        let stripped = without_if_includes(case);
        if check_inner(&stripped, job, rec).is_empty() {
            return vec![Violation::new("include-inside-if-ignored", format!("an `#include` inside an `#if true {{ }}` block was silently ignored: {}", v[0].detail))];
        }
    }
    v
}

fn check_inner(case: &Case, job: &Job, rec: &Record) -> Vec<Violation> {
    let mut v = Vec::new();
    let builtins = crate::job::std_file_names();
    let m = model14::run(case, builtins);
    let ctx = format!("roots={:?} fault={:?} expected={:?}", case.roots, case.fault, short_expected(&m.expected));
    let fault_touched = case.fault.as_ref().map(|f| {
        let rel = f.path.strip_prefix(&format!("{}/", PROJ)).unwrap_or(&f.path).to_string();
        m.touched.contains(&rel)
    });

    // ---- safety invariants on the access log (model-free)
    for e in &rec.events {
        if e.resolved.is_empty() || e.resolved == "<std>" {
            continue;
        }
        if matches!(e.op, Op::Create | Op::Write) {
            continue;
        }
        if !Disk::is_inside(&e.resolved, PROJ) {
            v.push(Violation::new("confinement", format!("the assembler asked the disk for `{}` which resolves to {} — outside the working directory {} ({:?}) | {}", e.spelling, e.resolved, PROJ, e.op, ctx)));
            break;
        }
    }
    if let Some(bits) = bits_of_output(rec) {
        if bits.contains(SENTINEL_BITS) {
            v.push(Violation::new("sentinel-in-output", format!("content of a file outside the project appears in the output | {}", ctx)));
        }
    }
    if let Outcome::Panic(p) = &rec.outcome {
        v.push(Violation::new(&crate::c03::panic_class("panic", p), format!("panicked: {} | {}", p, ctx)));
        return v;
    }

    // ---- reference model
    let actual_ok = matches!(rec.outcome, Outcome::Ok);
    match (&m.expected, fault_touched) {
        (Expected::Unspecified(_), _) => {}
        (_, Some(true)) => {
            // a file the expansion needs is permanently unreadable
            if actual_ok {
                v.push(Violation::new("fault-ignored", format!("a file the inclusion graph needs is unreadable and the run still succeeded | {}", ctx)));
            }
        }
        (Expected::Error(cls), _) => {
            if actual_ok {
                let class = match cls {
                    ErrClass::Outside => "outside-not-rejected",
                    ErrClass::NotFound => "missing-file-accepted",
                    ErrClass::Cycle => "cycle-not-reported",
                    ErrClass::BadRange => "range-past-end-accepted",
                    ErrClass::StdNotBuiltin => "std-names-non-builtin",
                    ErrClass::BadContent => "bad-digit-accepted",
                };
                v.push(Violation::new(class, format!("the property requires an error ({:?}) but the run succeeded with output {:?} | {}", cls, bits_of_output(rec).map(|b| crate::orch::truncate(&b, 200)), ctx)));
            }
        }
        (Expected::Bits(bits), _) => {
            if !actual_ok {
                v.push(Violation::new("valid-inclusion-rejected", format!("the property requires success with {} output bits but the run failed: {} | {}", bits.len(), first_error(&rec.stderr), ctx)));
            } else {
                match bits_of_output(rec) {
                    Some(got) if &got == bits => {
                        // (how often a file is *opened* is an implementation
                        // matter — a cache within one assembly is legitimate —
                        // so the splice count is judged on the output bits only)
                    }
                    Some(got) => {
                        v.push(Violation::new("wrong-content", format!("output bits differ from the reference expansion\n expected {}\n got      {} | {}", crate::orch::truncate(bits, 400), crate::orch::truncate(&got, 400), ctx)));
                    }
                    None => {
                        v.push(Violation::new("no-output", format!("success without the requested output | {}", ctx)));
                    }
                }
            }
        }
    }
    let _ = job;
    v
}

fn short_expected(e: &Expected) -> String {
    match e {
        Expected::Bits(b) => format!("Bits({} bits)", b.len()),
        other => format!("{:?}", other),
    }
}

fn first_error(stderr: &[u8]) -> String {
    let t = crate::job::strip_ansi(&String::from_utf8_lossy(stderr));
    t.lines().map(|l| l.trim_start().trim_start_matches("+ ")).find(|l| l.starts_with("error: ")).unwrap_or("").to_string()
}

fn case_replay(ctx: &Ctx, v: Violation, case: &Case, plan: SimPlan) -> Replay {
    let mut r = ctx.replay("C14", v, plan);
    r.c14 = Some(case.clone());
    r
}

/// The same case with every separator of every written path turned into the
/// other slash style ("both slash styles are normalised": the twin must
/// behave exactly like the original, whatever either of them means).
/// `<std>/…` spellings are left alone — the prefix is only spelled one way.
pub fn slash_twin(case: &Case) -> Option<Case> {
    let swap = |s: &str| -> String {
        if s.starts_with("<std>") {
            return s.to_string();
        }
        s.chars().map(|c| if c == '/' { '\\' } else if c == '\\' { '/' } else { c }).collect()
    };
    // a *source* file read as data would carry its own text — spellings
    // included — into the output: the twins then differ by construction
    let asm_as_data = case.files.iter().any(|f| f.items.iter().any(|i| matches!(i, Item::IncFn { spelling, .. } if spelling.trim_end_matches(|c| c == '/' || c == '\\' || c == '.').ends_with(".asm"))));
    if asm_as_data {
        return None;
    }
    let mut twin = case.clone();
    let mut changed = false;
    for f in twin.files.iter_mut() {
        for it in f.items.iter_mut() {
            match it {
                Item::Include(sp) | Item::IfInclude(sp) | Item::IncFn { spelling: sp, .. } => {
                    let t = swap(sp);
                    if t != *sp {
                        changed = true;
                        *sp = t;
                    }
                }
                _ => {}
            }
        }
    }
    if changed {
        Some(twin)
    } else {
        None
    }
}

/// One case in five (a function of the case, so that a replay makes the same
/// choice) is also executed as its slash twin.
pub fn twin_selected(case: &Case) -> bool {
    case.fault.is_none() && u8::from_str_radix(&case.digest()[..2], 16).unwrap_or(1) % 5 == 0
}

pub fn compare_twin(case: &Case, rec: &Record, twin_rec: &Record) -> Vec<Violation> {
    let ok_a = matches!(rec.outcome, Outcome::Ok);
    let ok_b = matches!(twin_rec.outcome, Outcome::Ok);
    let norm = |r: &Record| first_error(&r.stderr).replace('\\', "/");
    let detail = |what: &str| format!("roots {:?}: {} between the case and its slash twin (every '/' of every written path turned into '\\' and back)\n--- as written: outcome {:?}, first error `{}`, output {:?}\n--- twin: outcome {:?}, first error `{}`, output {:?}", case.roots, what, rec.outcome, first_error(&rec.stderr), bits_of_output(rec), twin_rec.outcome, first_error(&twin_rec.stderr), bits_of_output(twin_rec));
    if matches!(rec.outcome, Outcome::Panic(_)) || matches!(twin_rec.outcome, Outcome::Panic(_)) {
        return vec![]; // reported by the ordinary check of whichever case it is
    }
    if ok_a != ok_b {
        return vec![Violation::new("slash-twin-differs", detail("success differs"))];
    }
    if ok_a && bits_of_output(rec) != bits_of_output(twin_rec) {
        return vec![Violation::new("slash-twin-differs", detail("output differs"))];
    }
    if !ok_a {
        // the same kind of error (the text may quote the path as written)
        let (a, b) = (norm(rec), norm(twin_rec));
        let head = |s: &str| s.split('`').next().unwrap_or("").to_string();
        if head(&a) != head(&b) {
            return vec![Violation::new("slash-twin-differs", detail("the error differs"))];
        }
    }
    vec![]
}

fn exec_case(ctx: &mut Ctx, case: &Case, verif: &str, out: &mut Vec<Replay>) {
    let job = case.render();
    let faults: Vec<Fault> = case.fault.iter().cloned().collect();
    let plan = SimPlan::single(job.clone(), faults, &[0u8; 16], false, false);
    ctx.pending_c14 = Some(case.clone());
    let res = ctx.exec(&plan, "C14");
    ctx.pending_c14 = None;
    let rec = &res.runs[0].record;
    ctx.stats.inc("evaluations");
    let m = model14::run(case, crate::job::std_file_names());
    ctx.stats.inc(match &m.expected {
        Expected::Bits(_) => "expected_success",
        Expected::Error(ErrClass::Outside) => "expected_error_outside",
        Expected::Error(ErrClass::NotFound) => "expected_error_notfound",
        Expected::Error(ErrClass::Cycle) => "expected_error_cycle",
        Expected::Error(ErrClass::BadRange) => "expected_error_badrange",
        Expected::Error(ErrClass::StdNotBuiltin) => "expected_error_std",
        Expected::Error(ErrClass::BadContent) => "expected_error_content",
        Expected::Unspecified(_) => "expected_unspecified",
    });
    ctx.stats.inc(if matches!(rec.outcome, Outcome::Ok) { "actual_success" } else { "actual_failure" });
    // reach of the rarer shapes, counted only where the model commits itself
    if !matches!(m.expected, Expected::Unspecified(_)) && case.fault.is_none() {
        let has = |f: &dyn Fn(&Item) -> bool| case.files.iter().any(|cf| cf.items.iter().any(|i| f(i)));
        if has(&|i| matches!(i, Item::IncFn { via: Via::LabelRange, start: Some(_), .. })) {
            ctx.stats.inc("decided_with_range_from_labels");
        }
        if has(&|i| matches!(i, Item::Label { local: true, .. })) && m.expansions.values().any(|n| *n > 1) {
            ctx.stats.inc("decided_with_local_labels_in_respliced_file");
        }
        if case.files.len() >= 50 {
            ctx.stats.inc("decided_with_chain_over_50_files");
        }
    }
    if case.fault.is_some() {
        ctx.stats.inc("fault_configured");
        if rec.fired.iter().any(|n| *n > 0) {
            ctx.stats.inc("fault_fired");
        }
    }
    let edges = case.files.iter().map(|f| f.items.iter().filter(|i| !matches!(i, Item::Marker(_))).count()).sum::<usize>();
    if case.files.iter().any(|f| f.items.iter().any(|i| matches!(i, Item::IfInclude(_)))) {
        ctx.stats.inc("cases_with_conditional_include");
    }
    let reached_disk = rec.events.iter().filter(|e| matches!(e.op, Op::Probe | Op::Open)).count() > 1;
    if edges >= 1 && reached_disk {
        ctx.stats.note("nontrivial", case.digest()[..16].to_string());
    }
    if ctx.stats.samples.len() < 2 && edges >= 2 {
        let files: Vec<serde_json::Value> = job.disk.files().iter().filter(|(p, _)| p.starts_with(PROJ) && p.ends_with(".asm")).map(|(p, d)| serde_json::json!({"path": p, "text": String::from_utf8_lossy(d)})).collect();
        ctx.stats.sample(serde_json::json!({"roots": case.roots, "files": files, "fault": case.fault, "expected": short_expected(&m.expected), "outcome": format!("{:?}", rec.outcome),
            "access_log": rec.events.iter().take(16).map(|e| format!("{:?} {} -> {} ok={}", e.op, e.spelling, e.resolved, e.ok)).collect::<Vec<_>>()}), 4);
    }
    let mut seen = std::collections::BTreeSet::new();
    for v in check(case, &job, rec) {
        if !seen.insert(v.class.clone()) {
            continue;
        }
        // Tier A's disk is a model: a confinement or provenance alarm is only
        // reported after the real binary on the real file system shows it too
        if (v.class == "confinement" || v.class == "sentinel-in-output") && crate::procsim::available(verif) {
            let pv = check_proc_case(case, verif);
            ctx.stats.inc("tier_b_confirmations");
            if !pv.iter().any(|x| x.class == "confinement" || x.class == "sentinel-in-output") {
                ctx.stats.note("harness_errors", format!("Tier A {} alarm not reproduced by the real binary: {}", v.class, crate::orch::truncate(&v.detail, 300)));
                continue;
            }
        }
        out.push(case_replay(ctx, v, case, plan.clone()));
    }
    if twin_selected(case) {
        if let Some(twin) = slash_twin(case) {
            let tjob = twin.render();
            let tplan = SimPlan::single(tjob, vec![], &[0u8; 16], false, false);
            ctx.pending_c14 = Some(twin.clone());
            let tres = ctx.exec(&tplan, "C14");
            ctx.pending_c14 = None;
            ctx.stats.inc("slash_twins_executed");
            let rec = &res.runs[0].record;
            for v in compare_twin(case, rec, &tres.runs[0].record) {
                out.push(case_replay(ctx, v, case, plan.clone()));
            }
        }
    }
}

pub fn run(ctx: &mut Ctx, _c: &Corpus) -> Vec<Replay> {
    let mut rng = Rng::new(ctx.run_seed);
    let mut out = Vec::new();
    let verif = ctx.verif.clone();
    // the exhaustive range grid occupies the first run indices of every batch
    if let Some(cases) = range_grid_slice(ctx.run) {
        for case in cases {
            ctx.stats.inc("range_grid_cases");
            exec_case(ctx, &case, &verif, &mut out);
        }
        return out;
    }
    let case = draw_case(&mut rng);
    exec_case(ctx, &case, &verif, &mut out);
    out
}

pub const GRID_RUNS: u64 = 3 * 7 * 7;

/// Run index -> the slice of the exhaustive (kind, file length, container)
/// grid it covers: every (start, len) in [0, n+2]^2, (start) alone and ().
pub fn range_grid_slice(run: u64) -> Option<Vec<Case>> {
    if run >= GRID_RUNS {
        return None;
    }
    let kind = [IncKind::Incbin, IncKind::Incbinstr, IncKind::Inchexstr][(run % 3) as usize];
    let n = ((run / 3) % 7) as usize;
    let via = [Via::Direct, Via::Rule, Via::Fn, Via::AsmBlock, Via::Arg, Via::NestedArg, Via::ConstPath][((run / 21) % 7) as usize];
    let mut cases = Vec::new();
    cases.push(range_case(kind, n, None, None, via));
    for s in 0..=(n + 2) {
        cases.push(range_case(kind, n, Some(s), None, via));
        for l in 0..=(n + 2) {
            cases.push(range_case(kind, n, Some(s), Some(l), via));
        }
    }
    Some(cases)
}

pub fn classify(r: &Replay) -> Vec<Violation> {
    let case = match &r.c14 {
        Some(c) => c,
        None => return vec![],
    };
    let job = case.render();
    let faults: Vec<Fault> = case.fault.iter().cloned().collect();
    let plan = SimPlan::single(job.clone(), faults, &[0u8; 16], false, false);
    let res = crate::plan::run_plan(&plan);
    let mut v = check(case, &job, &res.runs[0].record);
    // (a replay of a twin violation keeps comparing the twins while the
    // minimiser changes the case, and with it the digest the choice hangs on)
    if case.fault.is_none() && (twin_selected(case) || r.violation.class == "slash-twin-differs") {
        if let Some(twin) = slash_twin(case) {
            let tplan = SimPlan::single(twin.render(), vec![], &[0u8; 16], false, false);
            let tres = crate::plan::run_plan(&tplan);
            v.extend(compare_twin(case, &res.runs[0].record, &tres.runs[0].record));
        }
    }
    v
}

// ===================================================================== Tier B

use crate::procsim::{proc_replay, ProcFault, ProcPlan, ProcRecord};

fn proc_plan_of(case: &Case) -> ProcPlan {
    let job = case.render();
    let faults: Vec<ProcFault> = case
        .fault
        .iter()
        .map(|f| ProcFault {
            kind: match f.kind {
                FaultKind::Missing => "probe-enoent",
                FaultKind::Unreadable => "open-eacces",
                // (the medium fails at the first read, or after a few bytes)
                _ => {
                    if u8::from_str_radix(&case.digest()[2..4], 16).unwrap_or(0) % 2 == 0 {
                        "read-eio"
                    } else {
                        "read-eio-late"
                    }
                }
            }
            .to_string(),
            path: f.path.clone(),
        })
        .collect();
    ProcPlan { job, faults, keys: "00000000000000000000000000000000".to_string(), clock: None, scratch_tag: String::new(), env: vec![], stdout_full: false }
}

/// Legal-but-unusual kernel behaviour (short and interrupted reads, a size
/// hint that is too large) must not change what an inclusion delivers.
fn add_kernel_behaviour(plan: &mut ProcPlan, rng: &mut Rng) {
    if rng.chance(1, 4) {
        for k in ["short-read", "eintr-read", "stat-fd-inflate", "stat-fd-fail"] {
            if rng.chance(1, 2) {
                plan.faults.push(ProcFault { kind: k.to_string(), path: "*".to_string() });
            }
        }
    }
}

pub fn check_proc_record(case: &Case, rec: &ProcRecord) -> Vec<Violation> {
    let v = check_proc_record_inner(case, rec);
    if !v.is_empty() && case.files.iter().any(|f| f.items.iter().any(|i| matches!(i, Item::IfInclude(_)))) {
        let stripped = without_if_includes(case);
        if check_proc_record_inner(&stripped, rec).is_empty() {
            return vec![Violation::new("include-inside-if-ignored", format!("an `#include` inside an `#if true {{ }}` block was silently ignored by the real binary: {}", v[0].detail))];
        }
    }
    v
}

fn check_proc_record_inner(case: &Case, rec: &ProcRecord) -> Vec<Violation> {
    let mut v = Vec::new();
    if rec.skipped.is_some() {
        return v;
    }
    let m = model14::run(case, crate::job::std_file_names());
    let ctx = format!("roots={:?} fault={:?} expected={:?}", case.roots, case.fault, short_expected(&m.expected));
    for e in &rec.events {
        if e.op == "create" || e.op == "write" {
            continue;
        }
        let inside = e.resolved.starts_with(&format!("{}/", PROJ)) || e.resolved == PROJ;
        if !inside {
            v.push(Violation::new("confinement", format!("the real binary asked the kernel for `{}` which resolves to {} — outside the working directory ({}) | {}", e.path, e.resolved, e.op, ctx)));
            break;
        }
    }
    let mut out_bits = rec.changed.get(&format!("{}/{}", PROJ, case.out_name())).map(|t| String::from_utf8_lossy(&crate::disk::b64::from_text(t)).to_string());
    if out_bits.is_none() && rec.exit == Some(0) {
        // the output went over a data file and left it as it was (the
        // listing of its bits happens to be its old text): "unchanged" is
        // then what the file holds
        if let Some(d) = case.out_over.as_ref().and_then(|o| case.data.iter().find(|d| &d.path == o)) {
            out_bits = Some(String::from_utf8_lossy(&d.content).to_string());
        }
    }
    if let Some(bits) = &out_bits {
        if bits.contains(SENTINEL_BITS) {
            v.push(Violation::new("sentinel-in-output", format!("content of a file outside the project appears in the output of the real binary | {}", ctx)));
        }
    }
    if rec.signal.is_some() || !matches!(rec.exit, Some(0) | Some(1)) {
        v.push(Violation::new("abnormal-end", format!("exit {:?} signal {:?} | {}", rec.exit, rec.signal, ctx)));
        return v;
    }
    let actual_ok = rec.exit == Some(0);
    let fault_touched = case.fault.as_ref().map(|f| m.touched.contains(f.path.strip_prefix(&format!("{}/", PROJ)).unwrap_or(&f.path)));
    match (&m.expected, fault_touched) {
        (Expected::Unspecified(_), _) => {}
        (_, Some(true)) => {
            if actual_ok {
                v.push(Violation::new("fault-ignored", format!("a needed file is unreadable and the real binary still exited 0 | {}", ctx)));
            }
        }
        (Expected::Error(cls), _) => {
            if actual_ok {
                let class = match cls {
                    ErrClass::Outside => "outside-not-rejected",
                    ErrClass::NotFound => "missing-file-accepted",
                    ErrClass::Cycle => "cycle-not-reported",
                    ErrClass::BadRange => "range-past-end-accepted",
                    ErrClass::StdNotBuiltin => "std-names-non-builtin",
                    ErrClass::BadContent => "bad-digit-accepted",
                };
                v.push(Violation::new(class, format!("the property requires an error ({:?}) but the real binary exited 0 with output {:?} | {}", cls, out_bits.as_ref().map(|b| crate::orch::truncate(b, 200)), ctx)));
            }
        }
        (Expected::Bits(bits), _) => {
            if !actual_ok {
                v.push(Violation::new("valid-inclusion-rejected", format!("the property requires success but the real binary failed: {} | {}", first_error(&rec.stderr), ctx)));
            } else if out_bits.as_ref() != Some(bits) {
                v.push(Violation::new("wrong-content", format!("output of the real binary differs from the reference expansion\n expected {}\n got      {:?} | {}", crate::orch::truncate(bits, 400), out_bits.as_ref().map(|b| crate::orch::truncate(b, 400)), ctx)));
            }
        }
    }
    v
}

fn check_proc_case(case: &Case, verif: &str) -> Vec<Violation> {
    let plan = proc_plan_of(case);
    let rec = crate::procsim::run_proc(&plan, verif);
    check_proc_record(case, &rec)
}

pub fn run_proc(ctx: &mut Ctx, _c: &Corpus, verif: &str) -> Vec<Replay> {
    let mut rng = Rng::new(ctx.run_seed);
    let case = draw_case(&mut rng);
    let mut out = Vec::new();
    let mut plan = proc_plan_of(&case);
    add_kernel_behaviour(&mut plan, &mut rng);
    let rec = ctx.exec_proc(&plan, "C14", verif);
    if let Some(why) = &rec.skipped {
        ctx.stats.inc(&format!("skipped:{}", why));
        return out;
    }
    ctx.stats.inc("evaluations");
    ctx.stats.inc(if rec.exit == Some(0) { "actual_success" } else { "actual_failure" });
    if case.fault.is_some() {
        ctx.stats.inc("fault_configured");
        if rec.fired.iter().any(|f| f.2 > 0) {
            ctx.stats.inc("fault_fired");
        }
    }
    if rec.events.len() > 2 {
        ctx.stats.note("nontrivial", format!("p{}", &case.digest()[..16]));
    }
    if ctx.stats.samples.is_empty() {
        ctx.stats.sample(serde_json::json!({"tier": "proc", "roots": case.roots, "fault": case.fault, "exit": rec.exit, "kernel_access_log": rec.events.iter().take(12).map(|e| format!("{} {} -> {} ret={}", e.op, e.path, e.resolved, e.ret)).collect::<Vec<_>>()}), 4);
    }
    let mut seen = std::collections::BTreeSet::new();
    for v in check_proc_record(&case, &rec) {
        if seen.insert(v.class.clone()) {
            let mut r = proc_replay("C14", ctx.seed, ctx.run, v, plan.clone());
            r.c14 = Some(case.clone());
            out.push(r);
        }
    }
    out
}

pub fn classify_proc(r: &Replay, verif: &str) -> Vec<Violation> {
    match (&r.c14, &r.proc) {
        (Some(case), Some(plan)) if !plan.faults.is_empty() && plan.job.argv.len() > 1 => {
            // re-render the (possibly minimised) case, keep the kernel behaviours
            let mut p = proc_plan_of(case);
            for f in &plan.faults {
                if f.path == "*" {
                    p.faults.push(f.clone());
                }
            }
            let rec = crate::procsim::run_proc(&p, verif);
            check_proc_record(case, &rec)
        }
        (Some(case), _) => check_proc_case(case, verif),
        _ => vec![],
    }
}

/// Structure-level minimisation of a C14 case: drop the fault, drop items,
/// drop files and data files, clear #once flags, drop extra roots — while
/// the same violation class persists (each trial in a fresh process).
pub fn minimise(r: &Replay, tmpdir: &str, budget_s: f64) -> Replay {
    use crate::minimize::classify_sub;
    let target = r.violation.class.clone();
    let deadline = crate::seams::real_now() + budget_s;
    let mut trials = 0u64;
    let mut best = r.clone();
    let rebuild = |rep: &mut Replay| {
        let case = rep.c14.clone().unwrap();
        if let Some(old) = rep.proc.clone() {
            let mut p = proc_plan_of(&case);
            // keep the kernel behaviours of the original process plan
            p.faults.extend(old.faults.iter().filter(|f| f.path == "*").cloned());
            rep.proc = Some(p);
        } else {
            let job = case.render();
            let faults: Vec<Fault> = case.fault.iter().cloned().collect();
            rep.plan = SimPlan::single(job, faults, &[0u8; 16], false, false);
        }
    };
    let mut ok = |cand: &Replay| -> bool {
        if crate::seams::real_now() > deadline {
            return false;
        }
        trials += 1;
        classify_sub(cand, tmpdir, "c14").iter().any(|c| *c == target)
    };
    loop {
        let mut progressed = false;
        let case = best.c14.clone().unwrap();
        let mut cands: Vec<Case> = Vec::new();
        if case.fault.is_some() {
            let mut c = case.clone();
            c.fault = None;
            cands.push(c);
        }
        if case.roots.len() > 1 {
            for i in 0..case.roots.len() {
                let mut c = case.clone();
                c.roots.remove(i);
                cands.push(c);
            }
        }
        for fi in 0..case.files.len() {
            if case.files.len() > 1 && !case.roots.contains(&case.files[fi].path) {
                let mut c = case.clone();
                let p = c.files[fi].path.clone();
                c.files.remove(fi);
                if c.defs_path.as_ref() == Some(&p) {
                    c.defs_path = None;
                }
                cands.push(c);
            }
            for ii in 0..case.files[fi].items.len() {
                let mut c = case.clone();
                c.files[fi].items.remove(ii);
                cands.push(c);
            }
            if case.files[fi].once {
                let mut c = case.clone();
                c.files[fi].once = false;
                cands.push(c);
            }
        }
        for di in 0..case.data.len() {
            let mut c = case.clone();
            c.data.remove(di);
            cands.push(c);
        }
        if case.std_dir {
            let mut c = case.clone();
            c.std_dir = false;
            cands.push(c);
        }
        for c in cands {
            let mut cand = best.clone();
            cand.c14 = Some(c);
            rebuild(&mut cand);
            if ok(&cand) {
                best = cand;
                progressed = true;
                break;
            }
        }
        if !progressed || crate::seams::real_now() > deadline {
            break;
        }
    }
    best.minimised = true;
    best.note = format!("minimised with {} subprocess trials", trials);
    best
}
