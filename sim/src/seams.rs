//! Environment seams owned by the simulator inside the harness process.
//!
//! * `getrandom` — std's `hashmap_random_keys()` reaches the kernel through
//!   the (weak, interposable) libc symbol `getrandom`; a strong definition in
//!   the executable wins at link time, so every `RandomState` key of every
//!   thread is whatever the simulator handed that thread.
//! * `clock_gettime` — same mechanism; `SystemTime::now()` / `Instant::now()`
//!   return simulated time. The harness's own timing uses the raw syscall.
//! * fd 1 / fd 2 — redirected per simulated job to memfds.

use std::cell::Cell;
use std::sync::atomic::{AtomicI64, AtomicU64, Ordering};

thread_local! {
    static KEYS: Cell<[u8; 16]> = const { Cell::new([0u8; 16]) };
    static KEY_DRAWS: Cell<u64> = const { Cell::new(0) };
}

pub static GETRANDOM_CALLS: AtomicU64 = AtomicU64::new(0);
pub static CLOCK_CALLS: AtomicU64 = AtomicU64::new(0);
static SIM_SEC: AtomicI64 = AtomicI64::new(1_700_000_000);
static SIM_NSEC: AtomicI64 = AtomicI64::new(0);
/// simulated time that passes with every read of the clock
static SIM_TICK_NS: AtomicI64 = AtomicI64::new(0);

pub fn set_clock_tick(ns: i64) {
    SIM_TICK_NS.store(ns, Ordering::SeqCst);
}

/// Every clock read goes through here: the time it returns, then the tick.
fn read_clock() -> (i64, i64) {
    let sec = SIM_SEC.load(Ordering::SeqCst);
    let nsec = SIM_NSEC.load(Ordering::SeqCst);
    let tick = SIM_TICK_NS.load(Ordering::SeqCst);
    if tick != 0 {
        let total = nsec as i128 + tick as i128;
        let nsec2 = total.rem_euclid(1_000_000_000) as i64;
        let carry = total.div_euclid(1_000_000_000) as i64;
        SIM_SEC.store(sec.saturating_add(carry), Ordering::SeqCst);
        SIM_NSEC.store(nsec2, Ordering::SeqCst);
    }
    (sec, nsec)
}

/// Set the key bytes the *current thread* will receive from `getrandom`.
pub fn set_thread_keys(k: [u8; 16]) {
    KEYS.with(|c| c.set(k));
}

pub fn thread_key_draws() -> u64 {
    KEY_DRAWS.with(|c| c.get())
}

pub fn set_sim_time(sec: i64, nsec: i64) {
    SIM_SEC.store(sec, Ordering::SeqCst);
    SIM_NSEC.store(nsec, Ordering::SeqCst);
}

#[no_mangle]
pub unsafe extern "C" fn getrandom(buf: *mut libc::c_void, len: libc::size_t, _flags: libc::c_uint) -> libc::ssize_t {
    GETRANDOM_CALLS.fetch_add(1, Ordering::Relaxed);
    let k = KEYS.with(|c| c.get());
    KEY_DRAWS.with(|c| c.set(c.get() + 1));
    let p = buf as *mut u8;
    for i in 0..len {
        *p.add(i) = k[i % 16];
    }
    len as libc::ssize_t
}

#[no_mangle]
pub unsafe extern "C" fn clock_gettime(_clk: libc::clockid_t, ts: *mut libc::timespec) -> libc::c_int {
    CLOCK_CALLS.fetch_add(1, Ordering::Relaxed);
    let (sec, nsec) = read_clock();
    if !ts.is_null() {
        (*ts).tv_sec = sec as libc::time_t;
        (*ts).tv_nsec = nsec as libc::c_long;
    }
    0
}

#[no_mangle]
pub unsafe extern "C" fn gettimeofday(tv: *mut libc::timeval, _tz: *mut libc::c_void) -> libc::c_int {
    CLOCK_CALLS.fetch_add(1, Ordering::Relaxed);
    let (sec, nsec) = read_clock();
    if !tv.is_null() {
        (*tv).tv_sec = sec as libc::time_t;
        (*tv).tv_usec = (nsec / 1000) as libc::suseconds_t;
    }
    0
}

#[no_mangle]
pub unsafe extern "C" fn time(t: *mut libc::time_t) -> libc::time_t {
    CLOCK_CALLS.fetch_add(1, Ordering::Relaxed);
    let s = read_clock().0 as libc::time_t;
    if !t.is_null() {
        *t = s;
    }
    s
}

/// Real monotonic time in seconds (raw syscall; never the seam). Only for
/// evidence (wall_s, runs per hour) and watchdogs — never reaches a decision
/// inside a simulated run.
pub fn real_now() -> f64 {
    let mut ts = libc::timespec { tv_sec: 0, tv_nsec: 0 };
    unsafe {
        libc::syscall(libc::SYS_clock_gettime, libc::CLOCK_MONOTONIC, &mut ts as *mut libc::timespec);
    }
    ts.tv_sec as f64 + ts.tv_nsec as f64 * 1e-9
}

/// Canary: iteration order of an 8-key HashMap created now on this thread.
pub fn hash_canary() -> String {
    let mut m = std::collections::HashMap::new();
    for i in 0..8u32 {
        m.insert(format!("k{}", i), i);
    }
    m.values().map(|v| char::from(b'0' + *v as u8)).collect()
}

pub fn clock_canary() -> u64 {
    match std::time::SystemTime::now().duration_since(std::time::UNIX_EPOCH) {
        Ok(d) => d.as_secs(),
        Err(_) => 0,
    }
}

// ---------------------------------------------------------------- fd capture

pub struct Capture {
    pub out_fd: i32,
    pub err_fd: i32,
}

fn memfd(name: &str) -> i32 {
    let c = std::ffi::CString::new(name).unwrap();
    let fd = unsafe { libc::memfd_create(c.as_ptr(), 0) };
    assert!(fd >= 0, "memfd_create failed");
    fd
}

fn slurp(fd: i32) -> Vec<u8> {
    let mut out = Vec::new();
    unsafe {
        let size = libc::lseek(fd, 0, libc::SEEK_END);
        if size > 0 {
            out.resize(size as usize, 0);
            let mut off = 0usize;
            while off < out.len() {
                let n = libc::pread(fd, out.as_mut_ptr().add(off) as *mut libc::c_void, out.len() - off, off as libc::off_t);
                if n <= 0 {
                    break;
                }
                off += n as usize;
            }
            out.truncate(off);
        }
    }
    out
}

static CAP_COUNTER: AtomicU64 = AtomicU64::new(0);

/// When SIM_CAPTURE_DIR is set (classify subprocesses), stderr captures are
/// real files so that the parent can read what the runtime printed when the
/// process died (allocation failure, stack overflow).
fn err_capture_fd() -> i32 {
    if let Ok(dir) = std::env::var("SIM_CAPTURE_DIR") {
        let n = CAP_COUNTER.fetch_add(1, Ordering::SeqCst);
        let path = format!("{}/cap-{}-{}.err", dir, std::process::id(), n);
        if let Ok(c) = std::ffi::CString::new(path) {
            let fd = unsafe { libc::open(c.as_ptr(), libc::O_RDWR | libc::O_CREAT | libc::O_TRUNC, 0o644) };
            if fd >= 0 {
                return fd;
            }
        }
    }
    memfd("sim-err")
}

impl Capture {
    pub fn new() -> Capture {
        Capture { out_fd: memfd("sim-out"), err_fd: err_capture_fd() }
    }

    /// Make this capture the process's fd 1 / fd 2. Called with the baton held.
    pub fn install(&self) {
        use std::io::Write;
        let _ = std::io::stdout().flush();
        unsafe {
            libc::dup2(self.out_fd, 1);
            libc::dup2(self.err_fd, 2);
        }
    }

    pub fn flush() {
        use std::io::Write;
        let _ = std::io::stdout().flush();
        let _ = std::io::stderr().flush();
    }

    pub fn take(&self) -> (Vec<u8>, Vec<u8>) {
        Capture::flush();
        let o = slurp(self.out_fd);
        let e = slurp(self.err_fd);
        unsafe {
            libc::ftruncate(self.out_fd, 0);
            libc::lseek(self.out_fd, 0, libc::SEEK_SET);
            libc::ftruncate(self.err_fd, 0);
            libc::lseek(self.err_fd, 0, libc::SEEK_SET);
        }
        (o, e)
    }
}

impl Drop for Capture {
    fn drop(&mut self) {
        unsafe {
            libc::close(self.out_fd);
            libc::close(self.err_fd);
        }
    }
}

/// fd on which the worker talks to the orchestrator (a dup of the original
/// stdout taken before any capture is installed), and a sink for fd 1/2 when
/// no job is running.
pub struct Channel {
    pub fd: i32,
}

static SINK_FD: std::sync::atomic::AtomicI32 = std::sync::atomic::AtomicI32::new(-1);
static ORIG_ERR: std::sync::atomic::AtomicI32 = std::sync::atomic::AtomicI32::new(-1);

pub fn init_channel() -> Channel {
    unsafe {
        let fd = libc::dup(1);
        assert!(fd >= 0);
        let e = libc::dup(2);
        assert!(e >= 0);
        ORIG_ERR.store(e, Ordering::SeqCst);
        let devnull = std::ffi::CString::new("/dev/null").unwrap();
        let n = libc::open(devnull.as_ptr(), libc::O_WRONLY);
        assert!(n >= 0);
        SINK_FD.store(n, Ordering::SeqCst);
        libc::dup2(n, 1);
        Channel { fd }
    }
}

/// fd 1 -> sink, fd 2 -> the harness's original stderr.
pub fn restore_fds() {
    Capture::flush();
    unsafe {
        let n = SINK_FD.load(Ordering::SeqCst);
        if n >= 0 {
            libc::dup2(n, 1);
        }
        let e = ORIG_ERR.load(Ordering::SeqCst);
        if e >= 0 {
            libc::dup2(e, 2);
        }
    }
}

impl Channel {
    pub fn send(&self, line: &str) {
        let mut data = line.as_bytes().to_vec();
        data.push(b'\n');
        let mut off = 0;
        while off < data.len() {
            let n = unsafe { libc::write(self.fd, data.as_ptr().add(off) as *const libc::c_void, data.len() - off) };
            if n <= 0 {
                // the orchestrator is gone; nothing sensible left to do
                unsafe { libc::_exit(3) };
            }
            off += n as usize;
        }
    }
}

// ---------------------------------------------------------------- panic hook

thread_local! {
    static LAST_PANIC: std::cell::RefCell<Option<String>> = const { std::cell::RefCell::new(None) };
}

pub fn install_panic_hook() {
    std::panic::set_hook(Box::new(|info| {
        let loc = match info.location() {
            Some(l) => format!("{}:{}", l.file(), l.line()),
            None => "?".to_string(),
        };
        let msg = if let Some(s) = info.payload().downcast_ref::<&str>() {
            s.to_string()
        } else if let Some(s) = info.payload().downcast_ref::<String>() {
            s.clone()
        } else {
            "<non-string panic>".to_string()
        };
        LAST_PANIC.with(|p| *p.borrow_mut() = Some(format!("{} @ {}", msg, loc)));
    }));
}

pub fn take_last_panic() -> Option<String> {
    LAST_PANIC.with(|p| p.borrow_mut().take())
}
