//! Reference include-expander for C14, written from the property statement
//! (not from the code): paths are resolved relative to the directory of the
//! file that contains them, '.', '..' and both slash styles are normalised, a
//! leading '/' is project-relative, nothing outside the project can be named,
//! '<std>/' names only the built-in library, every inclusion splices unless
//! the target says #once, cycles are errors, and the inclusion functions
//! return exactly the requested bytes/digits, rejecting ranges past the end.
//!
//! Where the statement is silent the model answers `Unspecified`, and only
//! the safety invariants on the access log apply.

use crate::c14::{Case, IncKind, Item, Via};
use std::collections::{BTreeMap, BTreeSet};

#[derive(Clone, Debug, PartialEq, Eq)]
pub enum ErrClass {
    Outside,
    NotFound,
    Cycle,
    BadRange,
    StdNotBuiltin,
    BadContent,
}

#[derive(Clone, Debug, PartialEq, Eq)]
pub enum Expected {
    /// success, output is exactly this bit string ('0'/'1')
    Bits(String),
    Error(ErrClass),
    Unspecified(String),
}

#[derive(Clone, Debug, PartialEq, Eq)]
pub enum Resolved {
    /// canonical project-relative path
    Path(String),
    Builtin(String),
    Err(ErrClass),
    Unspecified(String),
}

/// Resolve `spelling` found in the file `container` (canonical
/// project-relative path).
pub fn resolve(container: &str, spelling: &str, builtins: &[&str]) -> Resolved {
    if spelling.starts_with("<std>/") {
        if builtins.contains(&spelling) {
            return Resolved::Builtin(spelling.to_string());
        }
        return Resolved::Err(ErrClass::StdNotBuiltin);
    }
    let nav = spelling.replace('\\', "/");
    if nav.is_empty() {
        return Resolved::Unspecified("empty name".to_string());
    }
    if nav.ends_with('/') && nav.len() > 1 {
        return Resolved::Unspecified("trailing separator".to_string());
    }
    // an empty component (doubled separator) names the same directory, like
    // '.', and is normalised away below
    let mut comps: Vec<String> = if nav.starts_with('/') {
        Vec::new()
    } else {
        let mut c: Vec<String> = container.split('/').map(|s| s.to_string()).collect();
        c.pop();
        c
    };
    let mut any = false;
    for part in nav.split('/') {
        if part.is_empty() || part == "." {
            continue;
        }
        any = true;
        if part == ".." {
            if comps.pop().is_none() {
                return Resolved::Err(ErrClass::Outside);
            }
        } else {
            comps.push(part.to_string());
        }
    }
    if !any || comps.is_empty() {
        return Resolved::Unspecified("names a directory or nothing".to_string());
    }
    let joined = comps.join("/");
    if joined.starts_with("<std>/") {
        // a project directory literally called `<std>` reached through a
        // relative spelling: the statement does not say whether the prefix
        // rule or the directory wins
        return Resolved::Unspecified("project directory named <std>".to_string());
    }
    Resolved::Path(joined)
}

pub struct Model<'a> {
    pub case: &'a Case,
    pub builtins: Vec<&'a str>,
    pub once_done: BTreeSet<String>,
    pub stack: Vec<String>,
    pub bits: String,
    /// how often each source file is expanded (opened by an include / root)
    pub expansions: BTreeMap<String, usize>,
    /// every project file the expansion reads (sources and data)
    pub touched: BTreeSet<String>,
    pub steps: usize,
    /// canonical paths of roots that were named by a non-canonical spelling:
    /// how #once and cycle bookkeeping identify such a root is not specified
    pub noncanon_roots: BTreeSet<String>,
    /// label bookkeeping of the test programs themselves (in splice order)
    pub globals: BTreeSet<u8>,
    pub locals: BTreeSet<u8>,
    pub have_global: bool,
}

pub enum Stop {
    Error(ErrClass),
    Unspecified(String),
}

impl<'a> Model<'a> {
    pub fn new(case: &'a Case, builtins: Vec<&'a str>) -> Model<'a> {
        Model { case, builtins, once_done: BTreeSet::new(), stack: Vec::new(), bits: String::new(), expansions: BTreeMap::new(), touched: BTreeSet::new(), steps: 0, noncanon_roots: BTreeSet::new(), globals: BTreeSet::new(), locals: BTreeSet::new(), have_global: false }
    }

    fn byte_bits(&mut self, b: u8) {
        for i in (0..8).rev() {
            self.bits.push(if (b >> i) & 1 == 1 { '1' } else { '0' });
        }
    }

    pub fn expand(&mut self, path: &str) -> Result<(), Stop> {
        self.steps += 1;
        if self.steps > 20000 {
            return Err(Stop::Unspecified("model step budget".to_string()));
        }
        let file = match self.case.files.iter().find(|f| f.path == path) {
            Some(f) => f,
            None => {
                // a data file or a directory used as a source
                if self.case.data.iter().any(|d| d.path == path) {
                    return Err(Stop::Unspecified("data file included as source".to_string()));
                }
                return Err(Stop::Error(ErrClass::NotFound));
            }
        };
        *self.expansions.entry(path.to_string()).or_insert(0) += 1;
        if self.expansions[path] > 1 && file.items.iter().any(|i| matches!(i, Item::IncFn { via: Via::ConstPath, .. } | Item::IncFn { via: Via::UnusedConst, .. } | Item::IncFn { via: Via::LabelRange, .. })) {
            // the rendering declares a constant per such item: a second splice
            // re-declares it, which is an error of the test program itself
            return Err(Stop::Unspecified("file declaring a path constant spliced twice".to_string()));
        }
        self.touched.insert(path.to_string());
        if file.once {
            self.once_done.insert(path.to_string());
        }
        self.stack.push(path.to_string());
        for item in &file.items {
            match item {
                Item::Label { local, id } => {
                    if self.bits.len() % 8 != 0 {
                        return Err(Stop::Unspecified("label at an unaligned position".to_string()));
                    }
                    if *local {
                        if !self.have_global {
                            return Err(Stop::Unspecified("local label without a global one before it".to_string()));
                        }
                        if !self.locals.insert(*id) {
                            return Err(Stop::Unspecified("local label declared twice under one global label".to_string()));
                        }
                    } else {
                        if !self.globals.insert(*id) {
                            return Err(Stop::Unspecified("global label declared twice".to_string()));
                        }
                        self.have_global = true;
                        self.locals.clear();
                    }
                }
                Item::OddComment(_) => {}
                Item::Marker(b) => self.byte_bits(*b),
                Item::Include(sp) | Item::IfInclude(sp) => match resolve(path, sp, &self.builtins) {
                    Resolved::Err(e) => return Err(Stop::Error(e)),
                    Resolved::Unspecified(w) => return Err(Stop::Unspecified(w)),
                    Resolved::Builtin(_) => return Err(Stop::Unspecified("built-in library content is not modelled".to_string())),
                    Resolved::Path(q) => {
                        if self.noncanon_roots.contains(&q) {
                            return Err(Stop::Unspecified("a root named by a non-canonical spelling is included again".to_string()));
                        }
                        if self.once_done.contains(&q) {
                            if self.stack.contains(&q) {
                                return Err(Stop::Unspecified("#once file re-included while still being expanded".to_string()));
                            }
                            continue;
                        }
                        if self.stack.contains(&q) {
                            return Err(Stop::Error(ErrClass::Cycle));
                        }
                        self.expand(&q)?;
                    }
                },
                Item::IncFn { kind, spelling, start, len, via } => {
                    let needs_defs = !matches!(via, Via::Direct | Via::ConstPath | Via::Assert | Via::UnusedConst | Via::LabelRange);
                    if needs_defs && !self.case.defs_path.as_ref().map(|d| self.expansions.contains_key(d)).unwrap_or(false) {
                        return Err(Stop::Unspecified("definitions file not included before use".to_string()));
                    }
                    let container = match via {
                        // the path string stands in the file itself
                        Via::Direct | Via::Arg | Via::NestedArg | Via::ConstPath | Via::Assert | Via::UnusedConst | Via::LabelRange => path.to_string(),
                        _ => match &self.case.defs_path {
                            Some(d) if self.expansions.contains_key(d) => d.clone(),
                            _ => return Err(Stop::Unspecified("definitions file not included before use".to_string())),
                        },
                    };
                    let mut builtin_content: Option<Vec<u8>> = None;
                    let q = match resolve(&container, spelling, &self.builtins) {
                        Resolved::Err(e) => return Err(Stop::Error(e)),
                        Resolved::Unspecified(w) => return Err(Stop::Unspecified(w)),
                        Resolved::Builtin(name) => {
                            // the bytes of a built-in library file (only as
                            // bytes: what its text means as digits is not modelled)
                            match (kind, crate::job::std_file_content(&name)) {
                                (IncKind::Incbin, Some(c)) => {
                                    builtin_content = Some(c.as_bytes().to_vec());
                                    name
                                }
                                _ => return Err(Stop::Unspecified("built-in library file as digits".to_string())),
                            }
                        }
                        Resolved::Path(q) => q,
                    };
                    let is_builtin = builtin_content.is_some();
                    let content: Vec<u8> = if let Some(c) = builtin_content {
                        c
                    } else if let Some(d) = self.case.data.iter().find(|d| d.path == q) {
                        d.content.clone()
                    } else if self.case.files.iter().any(|f| f.path == q) {
                        return Err(Stop::Unspecified("source file used as data".to_string()));
                    } else {
                        return Err(Stop::Error(ErrClass::NotFound));
                    };
                    if !is_builtin {
                        // (a built-in file is not a file of the project tree,
                        // even when the tree has a directory named `<std>`)
                        self.touched.insert(q.clone());
                    }
                    let bits_before = self.bits.len();
                    let emits = !matches!(via, Via::Assert | Via::UnusedConst);
                    match kind {
                        IncKind::Incbin => {
                            let n = content.len();
                            let s = start.unwrap_or(0);
                            if n == 0 {
                                if s > 0 || len.unwrap_or(0) > 0 {
                                    return Err(Stop::Error(ErrClass::BadRange));
                                }
                                return Err(Stop::Unspecified("empty file".to_string()));
                            }
                            let e = match len {
                                Some(l) => s + l,
                                None => n,
                            };
                            if s > n || e > n {
                                return Err(Stop::Error(ErrClass::BadRange));
                            }
                            if s == n || e == s {
                                return Err(Stop::Unspecified("empty range".to_string()));
                            }
                            for b in &content[s..e] {
                                self.byte_bits(*b);
                            }
                        }
                        IncKind::Incbinstr | IncKind::Inchexstr => {
                            let bpc = if *kind == IncKind::Incbinstr { 1 } else { 4 };
                            let text = String::from_utf8_lossy(&content).to_string();
                            let mut digits: Vec<u32> = Vec::new();
                            for c in text.chars() {
                                if c == ' ' || c == '\t' || c == '\r' || c == '\n' || c == '_' {
                                    continue;
                                }
                                match c.to_digit(1 << bpc) {
                                    Some(d) => digits.push(d),
                                    None => return Err(Stop::Error(ErrClass::BadContent)),
                                }
                            }
                            let n = digits.len();
                            let s = start.unwrap_or(0);
                            if n == 0 {
                                if s > 0 || len.unwrap_or(0) > 0 {
                                    return Err(Stop::Error(ErrClass::BadRange));
                                }
                                return Err(Stop::Unspecified("empty file".to_string()));
                            }
                            let e = match len {
                                Some(l) => s + l,
                                None => n,
                            };
                            if s > n || e > n {
                                return Err(Stop::Error(ErrClass::BadRange));
                            }
                            if s == n || e == s {
                                return Err(Stop::Unspecified("empty range".to_string()));
                            }
                            for d in &digits[s..e] {
                                for i in (0..bpc).rev() {
                                    self.bits.push(if (d >> i) & 1 == 1 { '1' } else { '0' });
                                }
                            }
                        }
                    }
                    if !emits {
                        // the call stands in a directive that emits nothing
                        self.bits.truncate(bits_before);
                    }
                    if *via == Via::LabelRange {
                        if let Some(s) = start {
                            // two labels after the call, `start` zero bytes between them
                            if self.bits.len() % 8 != 0 {
                                return Err(Stop::Unspecified("label at an unaligned position".to_string()));
                            }
                            for _ in 0..*s {
                                self.byte_bits(0);
                            }
                        }
                    }
                }
            }
        }
        self.stack.pop();
        Ok(())
    }
}

pub struct ModelResult {
    pub expected: Expected,
    pub expansions: BTreeMap<String, usize>,
    pub touched: BTreeSet<String>,
}

pub fn run(case: &Case, builtins: Vec<&str>) -> ModelResult {
    let mut m = Model::new(case, builtins);
    let mut expected = None;
    for root in &case.roots {
        // a root named on the command line with a non-canonical spelling
        // (`./main.asm`, `build/../main.asm`): paths inside it are still
        // resolved relative to the file it denotes; only its own identity for
        // #once / cycle bookkeeping is a silent case
        // The repository's own tests pin that a '.' or empty component in the
        // *including* file's path is kept as an opaque component
        // (src/test/file_navigation.rs: "./main.asm" + "sibling.asm" ->
        // "./sibling.asm"), so such root spellings are silent cases; a root
        // spelled through `dir/..` is normalised by the ordinary '..' rule.
        let has_dot_component = root.split('/').any(|c| c == "." || c.is_empty());
        let canon = if root.contains('\\') || root.starts_with('/') || root.starts_with("../") || has_dot_component {
            None
        } else {
            match resolve("", root, &m.builtins) {
                Resolved::Path(p) => Some(p),
                _ => None,
            }
        };
        let canon = match canon {
            Some(c) => c,
            None => {
                expected = Some(Expected::Unspecified("root spelling cannot be canonicalised".to_string()));
                break;
            }
        };
        if &canon != root {
            m.noncanon_roots.insert(canon.clone());
            if case.roots.iter().filter(|r| **r != *root).any(|r| matches!(resolve("", r, &m.builtins), Resolved::Path(p) if p == canon)) {
                expected = Some(Expected::Unspecified("the same root under two spellings".to_string()));
                break;
            }
        }
        if m.once_done.contains(&canon) {
            if &canon != root {
                expected = Some(Expected::Unspecified("#once root named by a non-canonical spelling".to_string()));
                break;
            }
            continue;
        }
        m.stack.clear();
        match m.expand(&canon) {
            Ok(()) => {}
            Err(Stop::Error(e)) => {
                expected = Some(Expected::Error(e));
                break;
            }
            Err(Stop::Unspecified(w)) => {
                expected = Some(Expected::Unspecified(w));
                break;
            }
        }
    }
    let expected = expected.unwrap_or_else(|| Expected::Bits(m.bits.clone()));
    ModelResult { expected, expansions: m.expansions, touched: m.touched }
}
