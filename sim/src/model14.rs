//! C14 reference model (stub)
