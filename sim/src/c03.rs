//! C03 — failure is loud, success is clean, the assembler never crashes.
//! Per job: one fault-free run, then every single permanent fault on every
//! path the job touched, each judged by run-level invariants I1..I4 on the
//! effect log.

use crate::cmdline;
use crate::corpus::{self, Corpus};
use crate::fs::{Fault, FaultKind, Op};
use crate::job::{expected_group_bytes, Job, Outcome, Record, Spec};
use crate::mutate;
use crate::plan::SimPlan;
use crate::prng::{hex128, Rng};
use crate::replay::{Replay, Violation};
use crate::worker::Ctx;
use std::collections::BTreeSet;

pub fn panic_class(prefix: &str, msg: &str) -> String {
    // "message @ file:line" -> class keyed by location only
    let loc = msg.rsplit(" @ ").next().unwrap_or("?");
    // keep the repository-relative part ("src/…"), whatever the checkout path
    let loc = match loc.rfind("/src/") {
        Some(i) => &loc[i + 1..],
        None => loc,
    };
    format!("{}@{}", prefix, loc)
}

pub fn draw_job(rng: &mut Rng, c: &Corpus) -> Job {
    if rng.chance(1, 25) {
        // an inclusion-heavy tree of the C14 generator (data files of every
        // size including empty ones, inclusion functions in rules, functions
        // and asm blocks, cycles, #once): the success/failure contract must
        // hold there too, under every single fault on one of its files
        let mut case = crate::c14::draw_case(rng);
        case.fault = None;
        let mut job = case.render();
        job.name = format!("c14case:{}", job.name);
        return job;
    }
    let k = rng.below(100);
    if k >= 86 {
        // generated programs (many symbols and asm blocks, ambiguous mnemonic
        // prefixes, several files of identical layout, programs on <std>),
        // as they are and as token-level mutants
        let mut disk = crate::disk::Disk::new(corpus::PROJ);
        let root = match rng.below(15) {
            14 => {
                disk.add_file("big.asm", crate::c10::big_program(rng));
                "big.asm".to_string()
            }
            9 | 10 | 11 | 12 | 13 => {
                disk.add_file("mix.asm", crate::c10::feature_mix_program(rng));
                "mix.asm".to_string()
            }
            4 | 5 => {
                disk.add_file("banks.asm", crate::c10::bank_program(rng));
                "banks.asm".to_string()
            }
            6 | 7 | 8 => {
                disk.add_file("conv.asm", crate::c10::convergence_program(rng));
                "conv.asm".to_string()
            }
            0 => {
                disk.add_file("prog.asm", crate::c10::symbol_program(rng));
                "prog.asm".to_string()
            }
            1 => {
                disk.add_file("ambig.asm", crate::c10::ambiguous_program(rng));
                "ambig.asm".to_string()
            }
            2 => crate::c10::multifile_symbols(rng, &mut disk),
            _ => {
                disk.add_file("on_std.asm", crate::c10::std_program(rng));
                "on_std.asm".to_string()
            }
        };
        let mut name = format!("generated:{}", root);
        if rng.chance(1, 2) {
            let path = format!("{}/{}", corpus::PROJ, root);
            if let Some(crate::disk::Node::File(t)) = disk.nodes.get(&path).cloned() {
                let m = mutate::draw(rng, &t, &c.texts);
                let candidate = mutate::apply(&t, &m);
                if !mutate::magnitude_risky(&t, &candidate) {
                    disk.add_file(&root, candidate);
                    name = format!("generated-mutant:{}:{:?}", root, m);
                }
            }
        }
        let mut spec = Spec::simple(&root);
        if rng.chance(1, 2) {
            spec.groups[0].format = Some(rng.pick(&["symbols", "annotated", "addrspan", "tcgame", "mesen-mlb", "intelhex"]).to_string());
            spec.groups[0].out = Some("out.txt".to_string());
        }
        if rng.chance(1, 2) {
            // a second output group in any format (a check that only runs
            // while a later group is produced must not leave the first behind)
            // (formats that carry addresses a little more often)
            let f = if rng.chance(2, 5) { rng.pick(&["intelhex", "intelhex", "mif", "addrspan", "logisim16", "annotated"]).to_string() } else if rng.chance(1, 4) { cmdline::draw_good_format(rng) } else { rng.pick(cmdline::FORMAT_NAMES).to_string() };
            spec.groups.push(crate::job::Group { format: Some(f), out: Some("second.out".to_string()), print: false });
            if spec.groups[0].out.is_none() {
                spec.groups[0].out = Some("first.out".to_string());
            }
        }
        cmdline::draw_knobs(rng, &mut spec);
        return Job::from_spec(&name, disk, spec);
    }
    // half of the draws favour roots that assemble (so that the success side
    // — writes, output faults — is exercised as much as the failure side)
    let ridx = {
        let r = rng.below(c.roots.len());
        if rng.chance(1, 2) {
            let okish: Vec<usize> = (0..c.roots.len()).filter(|i| !c.roots[*i].1.starts_with("err")).collect();
            if okish.is_empty() { r } else { okish[rng.below(okish.len())] }
        } else {
            r
        }
    };
    let mut job = corpus::corpus_job(c, ridx);
    let (ii, root) = &c.roots[ridx];
    let img = &c.images[*ii];
    if k < 20 {
        // corpus root under random knobs
        if let Some(spec) = job.spec.as_mut() {
            cmdline::draw_knobs(rng, spec);
            job.argv = spec.render();
        }
        job
    } else if k < 70 {
        // token-level mutant of one source file of the image
        let asm_files: Vec<&String> = img.files.iter().map(|(n, _)| n).filter(|n| n.ends_with(".asm")).collect();
        let target = if rng.chance(7, 10) || asm_files.is_empty() { root.clone() } else { (*rng.pick(&asm_files)).clone() };
        let mut text = img.text_of(&target).cloned().unwrap_or_default();
        let n = *rng.pick(&[1, 1, 1, 2, 2, 3]);
        let mut descr = Vec::new();
        for _ in 0..n {
            for _attempt in 0..6 {
                let m = mutate::draw(rng, &text, &c.texts);
                let candidate = mutate::apply(&text, &m);
                if mutate::magnitude_risky(&text, &candidate) {
                    continue;
                }
                text = candidate;
                descr.push(format!("{:?}", m));
                break;
            }
        }
        job.disk.add_file(&target, text);
        job.name = format!("mutant:{}/{}:{}", img.label, target, descr.join("+"));
        if let Some(spec) = job.spec.as_mut() {
            cmdline::draw_knobs(rng, spec);
            job.argv = spec.render();
        }
        job
    } else {
        // generated command line over the image
        let others: Vec<String> = img.files.iter().map(|(n, _)| n.clone()).collect();
        let names = img.text_of(root).map(|t| cmdline::declared_names(t)).unwrap_or_default();
        let roots = if img.roots.is_empty() { vec![root.clone()] } else { img.roots.clone() };
        let mut spec = cmdline::draw_spec(rng, &roots, &others, &names);
        if spec.roots.len() == 1 && rng.chance(3, 4) {
            spec.roots = vec![root.clone()];
        }
        let mut disk = job.disk.clone();
        if rng.chance(1, 14) {
            // directed shape: the first output is written over the source file,
            // a later group builds a listing from that (now different) file
            let g0 = crate::job::Group { format: Some(rng.pick(&["binary", "binary", "hexstr", "annotated"]).to_string()), out: Some(root.clone()), print: false };
            let g1 = crate::job::Group { format: Some(rng.pick(&["addrspan", "annotated", "tcgame", "annotatedbin", "symbols"]).to_string()), out: if rng.chance(2, 3) { Some("listing.txt".to_string()) } else { None }, print: rng.chance(1, 4) };
            spec.groups = vec![g0, g1];
            spec.roots = vec![root.clone()];
            spec.root_group = 0;
            spec.help = false;
            spec.version = false;
        } else if rng.chance(1, 10) {
            // directed shape: an output group that must derive its file name
            // stands before the group naming the input, after a group that
            // writes or prints; the input's extension may be the derived one
            let f1 = rng.pick(&["hexstr", "binary", "annotated", "mesen-mlb", "symbols", "binstr"]).to_string();
            let g0 = crate::job::Group { format: Some(rng.pick(&["binary", "hexstr", "intelhex"]).to_string()), out: if rng.chance(1, 2) { Some("first.out".to_string()) } else { None }, print: false };
            let mut g0 = g0;
            if g0.out.is_none() {
                g0.print = true;
            }
            let g1 = crate::job::Group { format: Some(f1.clone()), out: None, print: false };
            let g2 = crate::job::Group { format: if rng.chance(1, 2) { Some("binary".to_string()) } else { None }, out: Some("last.out".to_string()), print: false };
            spec.groups = vec![g0, g1, g2];
            spec.root_group = rng.range(1, 2);
            spec.roots = vec![root.clone()];
            spec.help = false;
            spec.version = false;
            spec.quiet = true;
            spec.debug_iters = false;
            if rng.chance(1, 2) {
                let ext = match f1.as_str() {
                    "binary" => "bin",
                    "mesen-mlb" => "mlb",
                    _ => "txt",
                };
                if let Some(crate::disk::Node::File(t)) = disk.nodes.get(&format!("{}/{}", corpus::PROJ, root)).cloned() {
                    let renamed = format!("{}.{}", root.trim_end_matches(".asm"), ext);
                    disk.add_file(&renamed, t);
                    spec.roots = vec![renamed];
                }
            }
        } else if spec.roots.len() == 1 && rng.chance(1, 8) {
            // an input whose extension is the one an output format derives
            // (`prog.txt` with a text format, `prog.bin` with binary)
            let old = spec.roots[0].clone();
            if let Some(crate::disk::Node::File(t)) = disk.nodes.get(&format!("{}/{}", corpus::PROJ, old)).cloned() {
                let stem = old.trim_end_matches(".asm").to_string();
                let renamed = format!("{}.{}", stem, rng.pick(&["txt", "bin", "mlb", "txt"]));
                disk.add_file(&renamed, t);
                spec.roots = vec![renamed];
            }
        }
        let mut j = Job::from_spec(&format!("cmdline:{}/{}", img.label, root), disk, spec);
        j.disk.mkdir_p(&format!("{}/sub", corpus::PROJ));
        j
    }
}

/// Paths the run read from / wrote to, by the disk's resolution.
pub fn touched(rec: &Record) -> (BTreeSet<String>, BTreeSet<String>) {
    let mut ins = BTreeSet::new();
    let mut outs = BTreeSet::new();
    for e in &rec.events {
        if e.resolved.is_empty() || e.resolved == "<std>" {
            continue;
        }
        match e.op {
            Op::Probe | Op::HandleHit => {
                if e.ok {
                    ins.insert(e.resolved.clone());
                }
            }
            Op::Open | Op::Read => {
                ins.insert(e.resolved.clone());
            }
            Op::Create | Op::Write => {
                outs.insert(e.resolved.clone());
            }
        }
    }
    (ins, outs)
}

pub fn check(job: &Job, faults: &[Fault], rec: &Record, content_check: bool) -> Vec<Violation> {
    let mut v = Vec::new();
    let fired_read = faults.iter().zip(rec.fired.iter()).any(|(f, n)| f.kind.is_read() && *n > 0);
    let failed_write = rec.events.iter().any(|e| matches!(e.op, Op::Create | Op::Write) && !e.ok);
    let errs = rec.error_lines();
    let ctx = format!("argv={:?} faults={:?}", job.argv, faults);

    // I1
    if let Outcome::Panic(p) = &rec.outcome {
        v.push(Violation::new(&panic_class("I1-panic", p), format!("driver panicked: {} | {}", p, ctx)));
    }
    if let Some(p) = &rec.lib.panic {
        v.push(Violation::new(&panic_class("I1-panic-lib", p), format!("library panicked: {} | {}", p, ctx)));
    }

    match &rec.outcome {
        Outcome::Ok => {
            if errs > 0 {
                v.push(Violation::new(&format!("I2-success-with-error-diagnostic:{}", msg_class(&first_error(&rec.stderr))), format!("exit Ok but {} error diagnostic(s): {} | {}", errs, first_error(&rec.stderr), ctx)));
            }
            if fired_read {
                v.push(Violation::new("I4-read-fault-not-fatal", format!("a permanent read fault fired and the run still succeeded | {}", ctx)));
            }
            if rec.writes.iter().any(|w| !w.complete) || failed_write {
                v.push(Violation::new("I2-success-with-failed-write", format!("exit Ok although an output could not be written | {}", ctx)));
            }
            if let Some(spec) = &job.spec {
                let expected: Vec<&crate::job::Group> = if spec.help || spec.version { vec![] } else { spec.groups.iter().filter(|g| !g.print).collect() };
                if rec.writes.len() != expected.len() {
                    v.push(Violation::new(
                        if rec.writes.len() < expected.len() { "I2-success-missing-output" } else { "I2-success-extra-output" },
                        format!("exit Ok, {} file group(s) requested, {} write(s) done: {:?} | {}", expected.len(), rec.writes.len(), rec.writes.iter().map(|w| &w.spelling).collect::<Vec<_>>(), ctx),
                    ));
                } else {
                    let (ins, _) = touched(rec);
                    for (g, w) in expected.iter().zip(rec.writes.iter()) {
                        match &g.out {
                            Some(name) => {
                                if &w.spelling != name {
                                    v.push(Violation::new("I2-output-wrong-name", format!("group asked for `{}`, write went to `{}` | {}", name, w.spelling, ctx)));
                                }
                            }
                            None => {
                                // derived name: not predicted, only required not to be an input
                                if ins.contains(&w.resolved) {
                                    v.push(Violation::new("I2-derived-output-overwrites-input", format!("derived output `{}` is an input file | {}", w.spelling, ctx)));
                                }
                            }
                        }
                        // when an explicit -o names an input file, later listing
                        // formats legitimately see the overwritten source
                        let overwrote_input = rec.writes.iter().any(|w| ins.contains(&w.resolved));
                        if content_check && faults.is_empty() && !overwrote_input {
                            if let Some(bytes) = expected_group_bytes(job, &g.format, g.print) {
                                if bytes != w.data {
                                    v.push(Violation::new("I2-output-content-mismatch", format!("file `{}` does not hold the result in the requested format ({} vs {} bytes) | {}", w.spelling, w.data.len(), bytes.len(), ctx)));
                                }
                            }
                        }
                    }
                }
            }
            if let Some(spec) = &job.spec {
                // "every requested output produced" includes the `-p` groups:
                // with -q, stdout is exactly the formatted result of each
                // print group, in order, each followed by a line break
                let (ins2, _) = touched(rec);
                let overwrote_input = rec.writes.iter().any(|w| ins2.contains(&w.resolved));
                if content_check && faults.is_empty() && spec.quiet && !spec.debug_iters && !spec.help && !spec.version && !overwrote_input && spec.groups.iter().any(|g| g.print) {
                    let mut expected: Option<Vec<u8>> = Some(Vec::new());
                    for g in spec.groups.iter().filter(|g| g.print) {
                        match (expected.as_mut(), expected_group_bytes(job, &g.format, true)) {
                            (Some(acc), Some(bytes)) => {
                                acc.extend_from_slice(String::from_utf8_lossy(&bytes).as_bytes());
                                acc.push(b'\n');
                            }
                            _ => expected = None,
                        }
                    }
                    if let Some(exp) = expected {
                        if exp != rec.stdout {
                            v.push(Violation::new("I2-printed-output-mismatch", format!("stdout does not hold the requested `-p` output(s): {} byte(s) printed, {} expected | {}", rec.stdout.len(), exp.len(), ctx)));
                        }
                    }
                }
            }
            if rec.lib.ran && rec.lib.panic.is_none() && !rec.lib.has_output && faults.is_empty() {
                v.push(Violation::new("I3-driver-ok-library-no-output", format!("driver succeeded but asm::assemble gave no output | {}", ctx)));
            }
        }
        Outcome::Err => {
            if errs == 0 {
                v.push(Violation::new("I2-failure-without-diagnostic", format!("exit Err but no top-level error diagnostic; stderr={:?} | {}", String::from_utf8_lossy(&rec.stderr), ctx)));
            }
            if let Some(spec) = &job.spec {
                // with -q nothing but a `-p` group's formatted output goes to
                // stdout: on failure no output may have been printed either
                if spec.quiet && !spec.debug_iters && !spec.help && !spec.version && !rec.stdout.is_empty() && !failed_write {
                    v.push(Violation::new("I2-failure-printed-output", format!("exit Err ({}) but {} byte(s) of output were printed on stdout | {}", first_error(&rec.stderr), rec.stdout.len(), ctx)));
                }
            }
            if !failed_write && (!rec.writes.is_empty() || !rec.new_files.is_empty()) {
                v.push(Violation::new(
                    "I2-failure-wrote-output",
                    format!("exit Err ({}) but output was written: {:?} new files {:?} | {}", first_error(&rec.stderr), rec.writes.iter().map(|w| &w.spelling).collect::<Vec<_>>(), rec.new_files, ctx),
                ));
            }
        }
        Outcome::Panic(_) => {}
    }

    // I3 for the string convenience API of src/lib.rs
    if let Some(msg) = &rec.lib.str_api {
        v.push(Violation::new(&format!("I3-str-api:{}", msg.split(':').next().unwrap_or("")), format!("assemble_str_to_binary on the root text: {} | {}", msg, ctx)));
    }
    // I3 library level
    if rec.lib.ran && rec.lib.panic.is_none() {
        let l = &rec.lib;
        if !(l.has_output == !l.error && l.error == l.report_has_errors) {
            v.push(Violation::new("I3-library-inconsistent", format!("asm::assemble: error={} output={} report.has_errors={} | {}", l.error, l.has_output, l.report_has_errors, ctx)));
        }
    }
    v
}

/// Normalised wording of a diagnostic: text between backticks and digits
/// removed, so that one defect is one class.
pub fn msg_class(line: &str) -> String {
    let mut out = String::new();
    let mut in_tick = false;
    for c in line.trim_start_matches("error: ").chars() {
        if c == '`' {
            in_tick = !in_tick;
            continue;
        }
        if in_tick || c.is_ascii_digit() {
            continue;
        }
        out.push(if c == ' ' { '-' } else { c });
    }
    out.trim_matches('-').chars().take(40).collect()
}

fn first_error(stderr: &[u8]) -> String {
    let t = crate::job::strip_ansi(&String::from_utf8_lossy(stderr));
    t.lines().map(|l| l.trim_start().trim_start_matches("+ ")).find(|l| l.starts_with("error: ")).unwrap_or("").to_string()
}

pub fn fault_space(rec: &Record) -> Vec<Fault> {
    let (ins, outs) = touched(rec);
    let mut fs = Vec::new();
    for p in &ins {
        for k in [FaultKind::Missing, FaultKind::Unreadable, FaultKind::ReadError] {
            fs.push(Fault { path: p.clone(), kind: k });
        }
    }
    for q in &outs {
        for k in [FaultKind::Unwritable, FaultKind::WriteError] {
            fs.push(Fault { path: q.clone(), kind: k });
        }
    }
    fs
}

pub fn run(ctx: &mut Ctx, c: &Corpus) -> Vec<Replay> {
    let rng = Rng::new(ctx.run_seed);
    let mut jrng = rng.fork("job");
    let job = draw_job(&mut jrng, c);
    let keys = rng.fork("keys").bytes16();
    let mut out = Vec::new();
    let jd = hex128(job.digest());
    let kind = job.name.split(':').next().unwrap_or("?").to_string();
    ctx.stats.inc(&format!("jobs_{}", kind));
    ctx.stats.inc("jobs");

    // 1. fault-free baseline
    let plan = SimPlan::single(job.clone(), vec![], &keys, true, false);
    let res = ctx.exec(&plan, "C03");
    let rec = &res.runs[0].record;
    ctx.stats.inc("evaluations");
    ctx.stats.inc("baseline_runs");
    ctx.stats.inc(match rec.outcome {
        Outcome::Ok => "baseline_success",
        Outcome::Err => "baseline_failure",
        Outcome::Panic(_) => "baseline_panic",
    });
    let reads = rec.events.iter().filter(|e| e.op == Op::Read && e.ok).count();
    if reads > 0 {
        ctx.stats.note("nontrivial", format!("b:{}", &jd[..16]));
    }
    if job.argv.iter().any(|a| a.as_bytes().iter().any(|b| *b >= 0x80)) || job.disk.files().iter().any(|(_, d)| d.iter().any(|b| *b >= 0x80)) {
        ctx.stats.inc("jobs_with_non_ascii");
    }
    if ctx.stats.samples.len() < 2 {
        ctx.stats.sample(
            serde_json::json!({"job": job.name, "argv": job.argv, "outcome": format!("{:?}", rec.outcome), "errors": rec.error_lines(),
                "writes": rec.writes.iter().map(|w| w.spelling.clone()).collect::<Vec<_>>(),
                "events": rec.events.iter().take(12).map(|e| format!("{:?} {} -> {} ok={}", e.op, e.spelling, e.resolved, e.ok)).collect::<Vec<_>>()}),
            4,
        );
    }
    for v in check(&job, &[], rec, true) {
        out.push(ctx.replay("C03", v, plan.clone()));
    }
    if matches!(rec.outcome, Outcome::Panic(_)) {
        return out;
    }

    // 2. every single permanent fault
    let space = fault_space(rec);
    ctx.stats.add("fault_space_total", space.len() as u64);
    for f in space {
        let plan = SimPlan::single(job.clone(), vec![f.clone()], &keys, true, false);
        let res = ctx.exec(&plan, "C03");
        let frec = &res.runs[0].record;
        ctx.stats.inc("evaluations");
        ctx.stats.inc(&format!("fault_configured_{:?}", f.kind));
        let fired = frec.fired.first().copied().unwrap_or(0);
        if fired > 0 {
            ctx.stats.inc(&format!("fault_fired_{:?}", f.kind));
            ctx.stats.note("nontrivial", format!("f:{}:{}:{:?}", &jd[..16], f.path, f.kind));
        } else {
            ctx.stats.inc(&format!("fault_not_fired_{:?}", f.kind));
        }
        if ctx.stats.samples.len() < 4 && fired > 0 {
            ctx.stats.sample(
                serde_json::json!({"job": job.name, "argv": job.argv, "fault": format!("{:?} on {}", f.kind, f.path), "fired": fired,
                    "outcome": format!("{:?}", frec.outcome), "first_error": first_error(&frec.stderr), "writes": frec.writes.len()}),
                4,
            );
        }
        for v in check(&job, &[f.clone()], frec, false) {
            out.push(ctx.replay("C03", v, plan.clone()));
        }
    }
    out
}

pub fn classify(r: &Replay) -> Vec<Violation> {
    let res = crate::plan::run_plan(&r.plan);
    let mut v = Vec::new();
    for jr in &res.runs {
        v.extend(check(&r.plan.jobs[jr.job], &r.plan.faults[jr.job], &jr.record, r.plan.faults[jr.job].is_empty()));
    }
    v
}

#[allow(dead_code)]
fn _unused(_: Spec) {}

// ===================================================================== Tier B

use crate::procsim::{proc_replay, ProcFault, ProcPlan, ProcRecord};

const READ_KINDS: &[&str] = &["probe-enoent", "open-eacces", "open-emfile", "read-eio", "read-eio-late"];
const WRITE_KINDS: &[&str] = &["create-eacces", "create-erofs", "write-enospc", "write-eio", "write-short-enospc"];
const MASKED_KINDS: &[&str] = &["eintr-read", "eintr-write", "short-read", "short-write", "stat-fd-fail", "stat-fd-inflate"];

fn is_read_kind(k: &str) -> bool {
    READ_KINDS.contains(&k)
}

pub fn proc_panic_class(stderr: &[u8]) -> String {
    let t = String::from_utf8_lossy(stderr);
    for line in t.lines() {
        if let Some(i) = line.find("panicked at ") {
            let rest = &line[i + "panicked at ".len()..];
            let loc: String = rest.trim_end_matches(':').to_string();
            // "src/file.rs:LINE:COL" -> keep file:line
            let parts: Vec<&str> = loc.split(':').collect();
            if parts.len() >= 2 {
                return format!("I1-panic@{}:{}", parts[0], parts[1]);
            }
            return format!("I1-panic@{}", loc);
        }
    }
    "I1-panic@?".to_string()
}

pub fn check_proc(job: &Job, faults: &[ProcFault], rec: &ProcRecord, baseline: Option<&ProcRecord>) -> Vec<Violation> {
    let mut v = Vec::new();
    if rec.skipped.is_some() {
        return v;
    }
    let ctx = format!("argv={:?} faults={:?}", job.argv, faults);
    let errs = rec.error_lines();
    let failed_write = rec.events.iter().any(|e| (e.op == "create" || e.op == "write") && e.ret < 0 && e.errno != libc::EINTR);
    let fired_read = rec.any_fired(is_read_kind);
    let masked = !faults.is_empty() && faults.iter().all(|f| MASKED_KINDS.contains(&f.kind.as_str()));
    if let Some(sig) = rec.signal {
        let why = crate::minimize::abort_signature(&rec.stderr).map(|w| if w.starts_with("oom") && crate::minimize::job_has_magnitude(job) { w.replacen("oom", "oom-magnitude", 1) } else { w }).unwrap_or_else(|| format!("signal{}", sig));
        v.push(Violation::new(&format!("I1-abort:{}", why), format!("process killed by signal {} | {}", sig, ctx)));
        return v;
    }
    match rec.exit {
        Some(0) => {
            if errs > 0 {
                v.push(Violation::new(&format!("I2-success-with-error-diagnostic:{}", msg_class(&first_error(&rec.stderr))), format!("exit 0 but {} error diagnostic(s): {} | {}", errs, first_error(&rec.stderr), ctx)));
            }
            if fired_read {
                v.push(Violation::new("I4-read-fault-not-fatal", format!("a permanent read fault fired and the process still exited 0 | {}", ctx)));
            }
            if failed_write {
                v.push(Violation::new("I2-success-with-failed-write", format!("exit 0 although an output could not be written | {}", ctx)));
            }
            if let Some(spec) = &job.spec {
                let expected = if spec.help || spec.version { 0 } else { spec.groups.iter().filter(|g| !g.print).count() };
                // the bytes on the real disk are the result in the requested
                // format (explicit, unique -o names that are not inputs)
                if faults.is_empty() && !spec.help && !spec.version {
                    let (ins, _) = proc_touched(rec);
                    let file_groups: Vec<&crate::job::Group> = spec.groups.iter().filter(|g| !g.print).collect();
                    let overwrote_input = rec.events.iter().any(|e| e.op == "create" && ins.contains(&e.resolved));
                    if !overwrote_input {
                        for g in &file_groups {
                            if let Some(name) = &g.out {
                                if file_groups.iter().filter(|x| x.out.as_ref() == Some(name)).count() != 1 || name.contains("..") {
                                    continue;
                                }
                                let sim_path = format!("{}/{}", corpus::PROJ, name);
                                let on_disk = rec.changed.get(&sim_path).map(|t| crate::disk::b64::from_text(t)).or_else(|| match job.disk.nodes.get(&sim_path) {
                                    // rewritten with identical content: not listed as changed
                                    Some(crate::disk::Node::File(d)) => Some(d.clone()),
                                    _ => None,
                                });
                                if let (Some(got), Some(exp)) = (on_disk, expected_group_bytes(job, &g.format, false)) {
                                    if got != exp {
                                        v.push(Violation::new("I2-output-content-mismatch", format!("the file `{}` on the real disk does not hold the result in the requested format ({} bytes on disk, {} expected) | {}", name, got.len(), exp.len(), ctx)));
                                    }
                                }
                            }
                        }
                    }
                }
                let creates = rec.events.iter().filter(|e| e.op == "create" && e.ret >= 0).count();
                if creates != expected {
                    v.push(Violation::new(if creates < expected { "I2-success-missing-output" } else { "I2-success-extra-output" }, format!("exit 0, {} file group(s) requested, {} file(s) created | {}", expected, creates, ctx)));
                }
            }
        }
        // the statement asks for "a non-zero exit status": any ordinary non-zero
        // status is a failure (101 is how a Rust panic exits, handled below)
        Some(code) if code != 0 && code != 101 => {
            if errs == 0 {
                v.push(Violation::new("I2-failure-without-diagnostic", format!("exit {} but no error diagnostic; stderr={:?} | {}", code, String::from_utf8_lossy(&rec.stderr), ctx)));
            }
            if !failed_write && !rec.changed.is_empty() {
                v.push(Violation::new("I2-failure-wrote-output", format!("exit {} ({}) but files were created or changed: {:?} | {}", code, first_error(&rec.stderr), rec.changed.keys().collect::<Vec<_>>(), ctx)));
            }
        }
        Some(101) => {
            v.push(Violation::new(&proc_panic_class(&rec.stderr), format!("process panicked (exit 101): {} | {}", String::from_utf8_lossy(&rec.stderr).lines().next().unwrap_or(""), ctx)));
        }
        other => {
            v.push(Violation::new(&format!("I1-exit-status:{:?}", other), format!("exit status is neither 0 nor 1 | {}", ctx)));
        }
    }
    if masked {
        if let Some(b) = baseline {
            if (rec.exit, &rec.stdout, &rec.stderr, &rec.changed) != (b.exit, &b.stdout, &b.stderr, &b.changed) {
                v.push(Violation::new(
                    &format!("I5-masked-kind-visible:{}", faults[0].kind),
                    format!("under {} (legal kernel behaviour) the run differs from the fault-free run: exit {:?} vs {:?}, changed files {:?} vs {:?} | {}", faults[0].kind, rec.exit, b.exit, rec.changed.keys().collect::<Vec<_>>(), b.changed.keys().collect::<Vec<_>>(), ctx),
                ));
            }
        }
    }
    v
}

fn proc_touched(rec: &ProcRecord) -> (BTreeSet<String>, BTreeSet<String>) {
    let mut ins = BTreeSet::new();
    let mut outs = BTreeSet::new();
    for e in &rec.events {
        if e.resolved.starts_with('!') || e.resolved.is_empty() {
            continue;
        }
        match e.op.as_str() {
            "probe" => {
                if e.ret >= 0 {
                    ins.insert(e.resolved.clone());
                }
            }
            "open" | "read" => {
                ins.insert(e.resolved.clone());
            }
            "create" | "write" => {
                outs.insert(e.resolved.clone());
            }
            _ => {}
        }
    }
    // a path that is both written and read (explicit -o over an input)
    // stays in both sets
    (ins, outs)
}

pub fn run_proc(ctx: &mut Ctx, c: &Corpus, verif: &str) -> Vec<Replay> {
    let mut rng = Rng::new(ctx.run_seed);
    let mut jrng = rng.fork("job");
    let job = draw_job(&mut jrng, c);
    let keys = crate::plan::keys_to_hex(&rng.fork("keys").bytes16());
    let mut out = Vec::new();
    let jd = hex128(job.digest());
    ctx.stats.inc("jobs");
    let base_plan = ProcPlan { job: job.clone(), faults: vec![], keys: keys.clone(), clock: None, scratch_tag: String::new(), env: vec![], stdout_full: false };
    let base = ctx.exec_proc(&base_plan, "C03", verif);
    if let Some(why) = &base.skipped {
        ctx.stats.inc(&format!("skipped:{}", why));
        return out;
    }
    ctx.stats.inc("evaluations");
    ctx.stats.inc("baseline_runs");
    ctx.stats.inc(match base.exit {
        Some(0) => "baseline_success",
        Some(1) => "baseline_failure",
        _ => "baseline_other",
    });
    if base.events.iter().any(|e| e.op == "read" && e.ret > 0) {
        ctx.stats.note("nontrivial", format!("pb:{}", &jd[..16]));
    }
    for v in check_proc(&job, &[], &base, None) {
        out.push(proc_replay("C03", ctx.seed, ctx.run, v, base_plan.clone()));
    }

    // model validation: the same job through Tier A must agree on exit
    // status, diagnostics and written files; a difference is a harness error
    // (the simulated disk misrepresents the real one), never a verdict
    let base_class = |e: Option<i32>| -> Option<i32> {
        match e {
            Some(0) => Some(0),
            Some(101) => Some(101),
            Some(_) => Some(1),
            None => None,
        }
    };
    if base.signal.is_none() && matches!(base_class(base.exit), Some(0) | Some(1)) {
        let plan = SimPlan::single(job.clone(), vec![], &crate::plan::keys_from_hex(&keys), false, false);
        let res = crate::plan::run_plan(&plan);
        let a = &res.runs[0].record;
        let a_exit = match a.outcome {
            Outcome::Ok => Some(0),
            Outcome::Err => Some(1),
            Outcome::Panic(_) => Some(101),
        };
        let mut a_files: std::collections::BTreeMap<String, String> = std::collections::BTreeMap::new();
        for w in &a.writes {
            a_files.insert(w.resolved.clone(), crate::disk::b64::to_text(&w.data));
        }
        // unchanged content is not a change on the real disk
        a_files.retain(|p, d| match job.disk.nodes.get(p) {
            Some(crate::disk::Node::File(old)) => crate::disk::b64::to_text(old) != *d,
            _ => true,
        });
        ctx.stats.inc("model_validation_runs");
        let b_exit = base_class(base.exit);
        if a_exit == b_exit && a_files == base.changed && a.stderr != base.stderr && crate::job::top_level_errors(&a.stderr) == crate::job::top_level_errors(&base.stderr) {
            // same outcome, same files, same number of diagnostics, other
            // wording (the two file servers phrase an I/O error differently):
            // measured, not an error of the harness
            ctx.stats.inc("model_wording_differences");
        } else if a_exit != b_exit || a.stderr != base.stderr || a_files != base.changed {
            ctx.stats.inc("model_divergence");
            ctx.stats.note(
                "harness_errors",
                format!(
                    "model divergence on job {} argv={:?}: lib exit {:?} vs proc {:?}; stderr equal={}; files lib {:?} vs proc {:?}; lib stderr={:?} proc stderr={:?}",
                    job.name,
                    job.argv,
                    a_exit,
                    base.exit,
                    a.stderr == base.stderr,
                    a_files.keys().collect::<Vec<_>>(),
                    base.changed.keys().collect::<Vec<_>>(),
                    crate::orch::truncate(&String::from_utf8_lossy(&a.stderr), 300),
                    crate::orch::truncate(&String::from_utf8_lossy(&base.stderr), 300)
                ),
            );
        }
    }
    if base.signal.is_some() || !matches!(base_class(base.exit), Some(0) | Some(1)) {
        return out;
    }

    // Probe: a crash must never end in exit status 0. stdout connected to a
    // full device makes `println!` panic — a sink fault, outside the
    // property's fault set, so the panic itself is NOT judged here; what is
    // judged is only that a process that printed "panicked at" did not go on
    // to report success (a `main` that swallows the assembler's panic).
    if job.spec.as_ref().map(|s| !s.quiet || s.groups.iter().any(|g| g.print)).unwrap_or(false) && rng.chance(1, 4) {
        let mut pp = base_plan.clone();
        pp.stdout_full = true;
        let rec = ctx.exec_proc(&pp, "C03", verif);
        ctx.stats.inc("evaluations");
        ctx.stats.inc("sink_probe_runs");
        if String::from_utf8_lossy(&rec.stderr).contains("panicked at") {
            ctx.stats.inc("sink_probe_panics_seen");
            if rec.exit == Some(0) {
                out.push(proc_replay("C03", ctx.seed, ctx.run, Violation::new("I1-panic-with-exit-0", format!("the process panicked ({}) and still exited with status 0 | argv={:?}", String::from_utf8_lossy(&rec.stderr).lines().next().unwrap_or(""), job.argv)), pp.clone()));
            }
        }
    }

    let (ins, outs) = proc_touched(&base);
    let mut space: Vec<ProcFault> = Vec::new();
    for p in &ins {
        for k in READ_KINDS {
            space.push(ProcFault { kind: k.to_string(), path: p.clone() });
        }
    }
    for q in &outs {
        for k in WRITE_KINDS {
            space.push(ProcFault { kind: k.to_string(), path: q.clone() });
        }
    }
    for k in MASKED_KINDS {
        space.push(ProcFault { kind: k.to_string(), path: "*".to_string() });
    }
    ctx.stats.add("fault_space_total", space.len() as u64);
    for f in space {
        let plan = ProcPlan { job: job.clone(), faults: vec![f.clone()], keys: keys.clone(), clock: None, scratch_tag: String::new(), env: vec![], stdout_full: false };
        let rec = ctx.exec_proc(&plan, "C03", verif);
        ctx.stats.inc("evaluations");
        ctx.stats.inc(&format!("fault_configured_{}", f.kind));
        let fired: u64 = rec.fired.iter().map(|x| x.2).sum();
        if fired > 0 {
            ctx.stats.inc(&format!("fault_fired_{}", f.kind));
            ctx.stats.note("nontrivial", format!("pf:{}:{}:{}", &jd[..16], f.path, f.kind));
        } else {
            ctx.stats.inc(&format!("fault_not_fired_{}", f.kind));
        }
        if ctx.stats.samples.len() < 2 && fired > 0 {
            ctx.stats.sample(serde_json::json!({"tier": "proc", "job": job.name, "argv": job.argv, "fault": format!("{} on {}", f.kind, f.path), "fired": fired, "exit": rec.exit, "first_error": first_error(&rec.stderr), "changed_files": rec.changed.keys().collect::<Vec<_>>() }), 4);
        }
        for v in check_proc(&job, &[f.clone()], &rec, Some(&base)) {
            out.push(proc_replay("C03", ctx.seed, ctx.run, v, plan.clone()));
        }
    }
    out
}

pub fn classify_proc(r: &Replay, verif: &str) -> Vec<Violation> {
    let plan = match &r.proc {
        Some(p) => p,
        None => return vec![],
    };
    let masked = !plan.faults.is_empty() && plan.faults.iter().all(|f| MASKED_KINDS.contains(&f.kind.as_str()));
    let base = if masked {
        let mut bp = plan.clone();
        bp.faults.clear();
        Some(crate::procsim::run_proc(&bp, verif))
    } else {
        None
    };
    let rec = crate::procsim::run_proc(plan, verif);
    if plan.stdout_full {
        if String::from_utf8_lossy(&rec.stderr).contains("panicked at") && rec.exit == Some(0) {
            return vec![Violation::new("I1-panic-with-exit-0", "the process panicked and still exited with status 0".to_string())];
        }
        return vec![];
    }
    check_proc(&plan.job, &plan.faults, &rec, base.as_ref())
}
