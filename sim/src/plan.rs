//! A simulation plan: jobs, per-job fault plans, simulated threads with their
//! hash keys and job queues, the schedule and the clock script. `run_plan`
//! executes it exactly; the same plan always gives the same result.

use crate::fs::{Fault, SimFileServer};
use crate::job::{exec_job, ExecEnv, Job, Record};
use crate::prng::{digest128, hex128, Rng};
use crate::sched::Sched;
use crate::seams;
use serde::{Deserialize, Serialize};
use std::sync::{Arc, Mutex};

#[derive(Clone, Debug, PartialEq, Eq, Serialize, Deserialize)]
pub struct ThreadPlan {
    /// 32 hex digits: the 16 bytes this thread gets from getrandom
    pub keys: String,
    /// indices into `jobs`, executed in order on this thread
    pub jobs: Vec<usize>,
    /// reuse the previous job's file server for this queue position
    pub reuse: Vec<bool>,
    /// per queue position: handles registered by the host before the built-in
    /// library (0 = canonical layout)
    #[serde(default)]
    pub offsets: Vec<usize>,
}

#[derive(Clone, Debug, PartialEq, Eq, Serialize, Deserialize)]
pub struct SimPlan {
    pub jobs: Vec<Job>,
    pub faults: Vec<Vec<Fault>>,
    pub threads: Vec<ThreadPlan>,
    /// scheduling choices to replay (index among runnable threads)
    pub schedule: Vec<u8>,
    /// after the recorded schedule is exhausted: Some(seed) = seeded random
    /// choices, None = run the current thread to completion
    pub sched_seed: Option<u64>,
    pub switch_16: usize,
    /// (decision index, sec, nsec)
    pub clock: Vec<(u64, i64, i64)>,
    pub lib_pass: bool,
    pub all_formats: bool,
    /// execute the (single) thread's jobs one after the other in this
    /// process with the repository's real `FileServerReal` on a scratch
    /// tmpfs tree instead of the simulated disk
    #[serde(default)]
    pub realfs: bool,
    /// environment variables set in the process while the plan runs (none in
    /// the canonical environment)
    #[serde(default)]
    pub env: Vec<(String, String)>,
    /// every read of the clock advances simulated time by this much (0 in the
    /// canonical environment): code that measures elapsed time between two
    /// reads — a budget, a timeout — sees time pass without any I/O between
    #[serde(default)]
    pub clock_tick_ns: i64,
}

pub fn keys_from_hex(h: &str) -> [u8; 16] {
    let mut k = [0u8; 16];
    let b = h.as_bytes();
    for i in 0..16 {
        if 2 * i + 1 < b.len() {
            k[i] = u8::from_str_radix(&h[2 * i..2 * i + 2], 16).unwrap_or(0);
        }
    }
    k
}

pub fn keys_to_hex(k: &[u8; 16]) -> String {
    k.iter().map(|b| format!("{:02x}", b)).collect()
}

impl SimPlan {
    /// One job alone on one fresh thread with the given keys: the canonical
    /// environment when keys are all zero.
    pub fn single(job: Job, faults: Vec<Fault>, keys: &[u8; 16], lib_pass: bool, all_formats: bool) -> SimPlan {
        SimPlan {
            jobs: vec![job],
            faults: vec![faults],
            threads: vec![ThreadPlan { keys: keys_to_hex(keys), jobs: vec![0], reuse: vec![false], offsets: vec![] }],
            schedule: vec![],
            sched_seed: None,
            switch_16: 0,
            clock: vec![],
            lib_pass,
            all_formats,
            realfs: false,
            env: vec![],
            clock_tick_ns: 0,
        }
    }
}

#[derive(Clone, Debug, Serialize, Deserialize)]
pub struct JobRun {
    pub job: usize,
    pub thread: usize,
    /// position in the thread's queue (history length on that thread)
    pub pos: usize,
    pub reused_server: bool,
    pub record: Record,
    /// global event sequence numbers at job start/end
    pub seq_start: u64,
    pub seq_end: u64,
}

#[derive(Clone, Debug, Serialize, Deserialize)]
pub struct PlanResult {
    pub runs: Vec<JobRun>,
    pub decisions: Vec<u8>,
    pub switches: u64,
    pub points: u64,
    pub canaries: Vec<String>,
    pub clock_canary: u64,
}

impl PlanResult {
    pub fn schedule_digest(&self) -> String {
        hex128(digest128(&self.decisions))
    }

    /// Was this job parked mid-assembly while another job made progress?
    pub fn interleaved(&self, idx: usize) -> bool {
        let r = &self.runs[idx];
        self.runs.iter().enumerate().any(|(j, o)| j != idx && o.record.events.iter().any(|e| e.seq > r.seq_start && e.seq < r.seq_end))
    }

    pub fn digest(&self) -> String {
        let mut s = String::new();
        for r in &self.runs {
            s.push_str(&format!("{}|{}|{}|{}|{}\n", r.job, r.thread, r.pos, r.reused_server, r.record.comparable()));
            for e in &r.record.events {
                s.push_str(&format!("{}:{} ", e.seq, e.thr));
            }
        }
        s.push_str(&format!("{:?}{:?}", self.decisions, self.canaries));
        hex128(digest128(s.as_bytes()))
    }
}

/// Variables the environment dimension may set. The colour conventions
/// (NO_COLOR, CLICOLOR, CLICOLOR_FORCE, TERM) are deliberately absent:
/// honouring them is a widespread convention that changes colour codes only,
/// and the property does not name the environment among the things the
/// result must be independent of.
pub const ENV_NAMES: &[&str] = &["COLUMNS", "LINES", "LANG", "LC_ALL", "TZ", "HOME", "USER", "TMPDIR", "CUSTOMASM_OPTS", "SOURCE_DATE_EPOCH", "PWD", "HOSTNAME"];

pub fn run_plan(plan: &SimPlan) -> PlanResult {
    // no simulated thread is running here: the process environment is set
    // for the whole plan and cleared again afterwards
    for n in ENV_NAMES {
        std::env::remove_var(n);
    }
    for (k, v) in &plan.env {
        std::env::set_var(k, v);
    }
    let res = run_plan_inner(plan);
    for (k, _) in &plan.env {
        std::env::remove_var(k);
    }
    res
}

fn run_plan_inner(plan: &SimPlan) -> PlanResult {
    if plan.realfs {
        return crate::realfs::run_plan_realfs(plan);
    }
    let n = plan.threads.len();
    seams::set_sim_time(1_700_000_000, 0);
    seams::set_clock_tick(plan.clock_tick_ns);
    let sched = Arc::new(Sched::new(n, plan.schedule.clone(), plan.sched_seed.map(Rng::new), plan.switch_16, plan.clock.clone()));
    let results: Arc<Mutex<Vec<JobRun>>> = Arc::new(Mutex::new(Vec::new()));
    let canaries: Arc<Mutex<Vec<(usize, String)>>> = Arc::new(Mutex::new(Vec::new()));
    let plan_arc = Arc::new(plan.clone());

    // capture fds are created by the coordinator so that they are registered
    // before the first scheduling decision
    let mut caps = Vec::new();
    for t in 0..n {
        let c = seams::Capture::new();
        sched.set_capture(t, c.out_fd, c.err_fd);
        caps.push(c);
    }

    let mut handles = Vec::new();
    for (tid, cap) in caps.into_iter().enumerate() {
        let sched = sched.clone();
        let results = results.clone();
        let canaries = canaries.clone();
        let plan = plan_arc.clone();
        let h = std::thread::Builder::new()
            .name(format!("sim-{}", tid))
            .stack_size(8 << 20)
            .spawn(move || {
                let tp = &plan.threads[tid];
                seams::set_thread_keys(crate::plan::keys_from_hex(&tp.keys));
                let canary = seams::hash_canary();
                canaries.lock().unwrap().push((tid, canary));
                sched.start(tid);
                let mut server: Option<SimFileServer> = None;
                for (pos, jidx) in tp.jobs.iter().enumerate() {
                    sched.yield_point(tid);
                    let env = ExecEnv { sched: Some((sched.clone(), tid)), lib_pass: plan.lib_pass, all_formats: plan.all_formats, handle_offset: tp.offsets.get(pos).copied().unwrap_or(0) };
                    // a host that registers the built-in library and one that
                    // does not are different hosts: a server object is only
                    // handed on between jobs that agree on that
                    let same_host = pos > 0 && plan.jobs[tp.jobs[pos - 1]].use_std == plan.jobs[*jidx].use_std;
                    let reuse = tp.reuse.get(pos).copied().unwrap_or(false) && same_host;
                    let prev = if reuse { server.take() } else { None };
                    let seq_start = sched.next_seq();
                    let (record, fs, reused_server) = exec_job(&plan.jobs[*jidx], &plan.faults[*jidx], &env, prev, &cap);
                    let seq_end = sched.next_seq();
                    server = Some(fs);
                    results.lock().unwrap().push(JobRun { job: *jidx, thread: tid, pos, reused_server, record, seq_start, seq_end });
                    sched.yield_point(tid);
                }
                drop(server);
                sched.finish(tid);
            })
            .expect("spawn");
        handles.push(h);
    }
    sched.kick();
    for h in handles {
        let _ = h.join();
    }
    // restore fd 1/2 so later harness output cannot land in a closed memfd
    seams::restore_fds();
    let (decisions, switches, points) = sched.snapshot();
    let mut runs = std::mem::take(&mut *results.lock().unwrap());
    runs.sort_by_key(|r| (r.thread, r.pos));
    let mut cs = std::mem::take(&mut *canaries.lock().unwrap());
    cs.sort();
    PlanResult { runs, decisions, switches, points, canaries: cs.into_iter().map(|c| c.1).collect(), clock_canary: seams::clock_canary() }
}
