//! `SimFileServer`: the simulator's implementation of customasm's own
//! `util::FileServer` seam. It reproduces `FileServerReal`'s observable
//! protocol (exact-name hit in the handle table, else existence probe, one
//! handle per distinct spelling; open+read per `get_bytes`; create+write per
//! `write_bytes`; the same diagnostics) on top of the simulated disk, logs
//! every call, consults the fault plan and yields to the scheduler.

use crate::disk::{Disk, Errno};
use crate::sched::Sched;
use customasm::{diagn, util};
use serde::{Deserialize, Serialize};
use std::cell::RefCell;
use std::collections::BTreeMap;
use std::sync::Arc;

#[derive(Clone, Copy, Debug, PartialEq, Eq, PartialOrd, Ord, Serialize, Deserialize)]
pub enum FaultKind {
    /// existence probe fails (file is not there)
    Missing,
    /// probe succeeds, open fails (EACCES) — also the exists-then-open window
    Unreadable,
    /// open succeeds, read fails (EIO)
    ReadError,
    /// create fails (EACCES)
    Unwritable,
    /// create succeeds, write fails (ENOSPC) leaving a partial file
    WriteError,
}

impl FaultKind {
    pub fn is_read(&self) -> bool {
        matches!(self, FaultKind::Missing | FaultKind::Unreadable | FaultKind::ReadError)
    }
}

#[derive(Clone, Debug, PartialEq, Eq, Serialize, Deserialize)]
pub struct Fault {
    /// absolute resolved path on the simulated disk
    pub path: String,
    pub kind: FaultKind,
}

#[derive(Clone, Copy, Debug, PartialEq, Eq, Serialize, Deserialize)]
pub enum Op {
    HandleHit,
    Probe,
    Open,
    Read,
    Create,
    Write,
}

#[derive(Clone, Debug, PartialEq, Eq, Serialize, Deserialize)]
pub struct Event {
    pub seq: u64,
    pub thr: usize,
    pub op: Op,
    pub spelling: String,
    /// absolute path after resolution by the disk ("" if resolution failed,
    /// "<std>" for embedded library content)
    pub resolved: String,
    pub ok: bool,
    pub fault: bool,
    /// bytes transferred for Read / Write
    pub n: usize,
}

pub struct Inner {
    pub disk: Disk,
    pub log: Vec<Event>,
    pub faults: Vec<Fault>,
    pub fired: Vec<u32>,
    pub local_seq: u64,
    /// completed writes: (spelling, resolved, bytes, complete?)
    pub writes: Vec<(String, String, Vec<u8>, bool)>,
}

pub struct SimFileServer {
    handles: BTreeMap<String, util::FileServerHandle>,
    handles_to_filename: Vec<String>,
    std_files: Vec<Option<&'static str>>,
    pub inner: RefCell<Inner>,
    pub sched: Option<(Arc<Sched>, usize)>,
}

impl SimFileServer {
    pub fn new(disk: Disk, faults: Vec<Fault>, sched: Option<(Arc<Sched>, usize)>) -> SimFileServer {
        let n = faults.len();
        SimFileServer {
            handles: BTreeMap::new(),
            handles_to_filename: Vec::new(),
            std_files: Vec::new(),
            inner: RefCell::new(Inner { disk, log: Vec::new(), faults, fired: vec![0; n], local_seq: 0, writes: Vec::new() }),
            sched,
        }
    }

    /// Handles a host registered earlier for its own purposes: they occupy
    /// handle numbers and name nothing the assembler will ask for.
    pub fn add_placeholder_handles(&mut self, n: usize) {
        for i in 0..n {
            let name = format!("\u{1}host-file-{}", i);
            let h = self.handles.len();
            self.handles.insert(name.clone(), h);
            self.handles_to_filename.push(name);
            self.std_files.push(Some(""));
        }
    }

    pub fn add_std_files(&mut self, entries: &[(&str, &'static str)]) {
        for (filename, contents) in entries {
            let filename = filename.to_string();
            let next_index = self.handles.len();
            let handle = *self.handles.entry(filename.clone()).or_insert(next_index);
            while handle >= self.std_files.len() {
                self.handles_to_filename.push("".to_string());
                self.std_files.push(None);
            }
            self.handles_to_filename[handle] = filename;
            self.std_files[handle] = Some(contents);
        }
    }

    /// Replace the disk and fault plan but keep the handle table (server
    /// reuse by a long-lived host). Returns false (and does nothing) if some
    /// cached non-std name no longer resolves to a file on the new disk: the
    /// cached handle would skip the existence probe and legitimately change
    /// the wording of the diagnostic.
    pub fn rebind(&mut self, disk: Disk, faults: Vec<Fault>) -> bool {
        for (h, name) in self.handles_to_filename.iter().enumerate() {
            if self.std_files.get(h).map(|x| x.is_some()).unwrap_or(false) {
                continue;
            }
            match disk.resolve(name) {
                Ok(r) if r.exists && !r.is_dir => {}
                _ => return false,
            }
            if faults.iter().any(|f| disk.resolve(name).map(|r| r.abs == f.path).unwrap_or(false)) {
                return false;
            }
        }
        let n = faults.len();
        let mut inner = self.inner.borrow_mut();
        inner.disk = disk;
        inner.faults = faults;
        inner.fired = vec![0; n];
        inner.log.clear();
        inner.writes.clear();
        true
    }

    pub fn handle_count(&self) -> usize {
        self.handles.len()
    }

    fn yield_point(&self) {
        if let Some((s, tid)) = &self.sched {
            s.yield_point(*tid);
        }
    }

    fn thr(&self) -> usize {
        self.sched.as_ref().map(|x| x.1).unwrap_or(0)
    }

    fn next_seq(&self, inner: &mut Inner) -> u64 {
        match &self.sched {
            Some((s, _)) => s.next_seq(),
            None => {
                inner.local_seq += 1;
                inner.local_seq
            }
        }
    }

    fn log(&self, inner: &mut Inner, op: Op, spelling: &str, resolved: &str, ok: bool, fault: bool, n: usize) {
        let seq = self.next_seq(inner);
        inner.log.push(Event { seq, thr: self.thr(), op, spelling: spelling.to_string(), resolved: resolved.to_string(), ok, fault, n });
    }

    fn fault_for(&self, inner: &mut Inner, abs: &str, kind: FaultKind) -> bool {
        for i in 0..inner.faults.len() {
            if inner.faults[i].kind == kind && inner.faults[i].path == abs {
                inner.fired[i] += 1;
                return true;
            }
        }
        false
    }

    pub fn take_log(&self) -> Vec<Event> {
        std::mem::take(&mut self.inner.borrow_mut().log)
    }
}

fn report_error<S: Into<String>>(report: &mut diagn::Report, span: Option<diagn::Span>, descr: S) {
    if let Some(span) = span {
        report.error_span(descr, span);
    } else {
        report.error(descr);
    }
}

impl util::FileServer for SimFileServer {
    fn get_handle(&mut self, report: &mut diagn::Report, span: Option<diagn::Span>, filename: &str) -> Result<util::FileServerHandle, ()> {
        self.yield_point();
        if let Some(handle) = self.handles.get(filename) {
            let mut inner = self.inner.borrow_mut();
            let std = self.std_files.get(*handle).map(|x| x.is_some()).unwrap_or(false);
            let resolved = if std { "<std>".to_string() } else { inner.disk.resolve(filename).map(|r| r.abs).unwrap_or_default() };
            self.log(&mut inner, Op::HandleHit, filename, &resolved, true, false, 0);
            return Ok(*handle);
        }

        // `<std>/` names only the built-in library, never the disk
        if filename.starts_with("<std>/") {
            report_error(report, span, format!("file not found: `{}`", filename));
            return Err(());
        }

        // the existence probe (PathBuf::exists -> stat)
        let exists = {
            let mut inner = self.inner.borrow_mut();
            let res = inner.disk.resolve(filename);
            let (abs, mut exists) = match &res {
                Ok(r) => (r.abs.clone(), r.exists),
                Err(_) => (String::new(), false),
            };
            let mut fault = false;
            if exists && self.fault_for(&mut inner, &abs, FaultKind::Missing) {
                exists = false;
                fault = true;
            }
            self.log(&mut inner, Op::Probe, filename, &abs, exists, fault, 0);
            exists
        };

        if !exists {
            report_error(report, span, format!("file not found: `{}`", filename));
            return Err(());
        }

        let handle: util::FileServerHandle = self.handles.len();
        self.handles.insert(filename.to_string(), handle);
        self.handles_to_filename.push(filename.to_string());
        while self.std_files.len() < self.handles_to_filename.len() {
            self.std_files.push(None);
        }
        Ok(handle)
    }

    fn get_filename(&self, file_handle: util::FileServerHandle) -> &str {
        &self.handles_to_filename[file_handle]
    }

    fn get_bytes(&self, report: &mut diagn::Report, span: Option<diagn::Span>, file_handle: util::FileServerHandle) -> Result<Vec<u8>, ()> {
        if let Some(Some(std_contents)) = self.std_files.get(file_handle) {
            return Ok(std_contents.as_bytes().to_vec());
        }
        self.yield_point();
        let filename = self.handles_to_filename[file_handle].clone();
        let mut inner = self.inner.borrow_mut();

        // open
        let res = inner.disk.resolve(&filename);
        let open: Result<String, Errno> = match res {
            Err(e) => Err(e),
            Ok(r) if !r.exists => Err(Errno::ENOENT),
            Ok(r) => Ok(r.abs),
        };
        let abs = match open {
            Err(e) => {
                self.log(&mut inner, Op::Open, &filename, "", false, false, 0);
                drop(inner);
                report_error(report, span, format!("could not open file `{}`: {}", filename, e.os_text()));
                return Err(());
            }
            Ok(abs) => abs,
        };
        if self.fault_for(&mut inner, &abs, FaultKind::Missing) {
            // the file is permanently absent: an open through a cached handle
            // fails like the probe would
            self.log(&mut inner, Op::Open, &filename, &abs, false, true, 0);
            drop(inner);
            report_error(report, span, format!("could not open file `{}`: {}", filename, Errno::ENOENT.os_text()));
            return Err(());
        }
        if self.fault_for(&mut inner, &abs, FaultKind::Unreadable) {
            self.log(&mut inner, Op::Open, &filename, &abs, false, true, 0);
            drop(inner);
            report_error(report, span, format!("could not open file `{}`: {}", filename, Errno::EACCES.os_text()));
            return Err(());
        }
        self.log(&mut inner, Op::Open, &filename, &abs, true, false, 0);

        // read
        if self.fault_for(&mut inner, &abs, FaultKind::ReadError) {
            self.log(&mut inner, Op::Read, &filename, &abs, false, true, 0);
            drop(inner);
            report_error(report, span, format!("could not read file `{}`: {}", filename, Errno::EIO.os_text()));
            return Err(());
        }
        match inner.disk.read(&abs) {
            Ok(data) => {
                let data = data.clone();
                self.log(&mut inner, Op::Read, &filename, &abs, true, false, data.len());
                Ok(data)
            }
            Err(e) => {
                // a directory opens fine and fails on read (EISDIR)
                self.log(&mut inner, Op::Read, &filename, &abs, false, false, 0);
                drop(inner);
                report_error(report, span, format!("could not read file `{}`: {}", filename, e.os_text()));
                Err(())
            }
        }
    }

    fn write_bytes(&mut self, report: &mut diagn::Report, span: Option<diagn::Span>, filename: &str, data: &Vec<u8>) -> Result<(), ()> {
        self.yield_point();
        let mut inner = self.inner.borrow_mut();
        let res = inner.disk.resolve(filename);
        let create: Result<String, Errno> = match res {
            Err(e) => Err(e),
            Ok(r) if r.exists && r.is_dir => Err(Errno::EISDIR),
            Ok(r) if !r.exists && filename.ends_with('/') => Err(Errno::EISDIR),
            Ok(r) => Ok(r.abs),
        };
        let abs = match create {
            Err(e) => {
                self.log(&mut inner, Op::Create, filename, "", false, false, 0);
                drop(inner);
                report_error(report, span, format!("could not create file `{}`: {}", filename, e.os_text()));
                return Err(());
            }
            Ok(abs) => abs,
        };
        if self.fault_for(&mut inner, &abs, FaultKind::Unwritable) {
            self.log(&mut inner, Op::Create, filename, &abs, false, true, 0);
            drop(inner);
            report_error(report, span, format!("could not create file `{}`: {}", filename, Errno::EACCES.os_text()));
            return Err(());
        }
        self.log(&mut inner, Op::Create, filename, &abs, true, false, 0);
        if self.fault_for(&mut inner, &abs, FaultKind::WriteError) {
            let part = data[..data.len() / 2].to_vec();
            inner.disk.nodes.insert(abs.clone(), crate::disk::Node::File(part.clone()));
            inner.writes.push((filename.to_string(), abs.clone(), part, false));
            self.log(&mut inner, Op::Write, filename, &abs, false, true, data.len() / 2);
            drop(inner);
            report_error(report, span, format!("could not write to file `{}`: {}", filename, Errno::ENOSPC.os_text()));
            return Err(());
        }
        inner.disk.nodes.insert(abs.clone(), crate::disk::Node::File(data.clone()));
        inner.writes.push((filename.to_string(), abs.clone(), data.clone(), true));
        self.log(&mut inner, Op::Write, filename, &abs, true, false, data.len());
        Ok(())
    }
}
