//! A job = (disk image, command line). `exec_job` runs the repository's real
//! driver + library on the simulated disk under a fault plan and returns a
//! complete record of what happened at every seam.

use crate::disk::{b64, Disk};
use crate::driver;
use crate::fs::{Event, Fault, SimFileServer};
use crate::prng::{digest128, hex128};
use crate::sched::Sched;
use crate::seams;
use customasm::{asm, diagn, expr, syntax, util};
use serde::{Deserialize, Serialize};
use std::sync::Arc;

include!(concat!(env!("OUT_DIR"), "/std_files.rs"));

#[derive(Clone, Debug, PartialEq, Eq, Serialize, Deserialize)]
pub struct Group {
    /// the `-f` argument, None = not given
    pub format: Option<String>,
    /// the `-o` argument, None = derived from the first input
    pub out: Option<String>,
    pub print: bool,
}

/// Structured description of a command line the harness built itself.
#[derive(Clone, Debug, PartialEq, Eq, Serialize, Deserialize, Default)]
pub struct Spec {
    pub roots: Vec<String>,
    pub groups: Vec<Group>,
    pub iters: Option<String>,
    pub no_opt_static: bool,
    pub no_opt_matcher: bool,
    pub debug_iters: bool,
    /// raw `-d` arguments
    pub defines: Vec<String>,
    pub quiet: bool,
    /// raw `--color=` argument
    pub color: Option<String>,
    pub help: bool,
    pub version: bool,
    /// index of the `--` group in which the input files and the global
    /// options are written (0 = first, as in every documented example)
    #[serde(default)]
    pub root_group: usize,
    /// spell the options in their long forms (`--iters=3`, `--format=…`,
    /// `--output=…`, `--define=…`, `--print`, `--quiet`)
    #[serde(default)]
    pub long_opts: bool,
}

/// The harness only needs to *add* a define to the options; it does not
/// care which container the repository keeps them in (a refactoring from a
/// list to a map must not break the harness build).
pub trait PushDef {
    fn push_def(&mut self, d: asm::DriverSymbolDef);
}

impl PushDef for Vec<asm::DriverSymbolDef> {
    fn push_def(&mut self, d: asm::DriverSymbolDef) {
        self.push(d);
    }
}

impl<S: std::hash::BuildHasher> PushDef for std::collections::HashMap<String, asm::DriverSymbolDef, S> {
    fn push_def(&mut self, d: asm::DriverSymbolDef) {
        self.entry(d.name.clone()).or_insert(d);
    }
}

impl PushDef for std::collections::BTreeMap<String, asm::DriverSymbolDef> {
    fn push_def(&mut self, d: asm::DriverSymbolDef) {
        self.entry(d.name.clone()).or_insert(d);
    }
}

impl Spec {
    pub fn simple(root: &str) -> Spec {
        Spec { roots: vec![root.to_string()], groups: vec![Group { format: None, out: None, print: false }], quiet: false, ..Default::default() }
    }

    pub fn render(&self) -> Vec<String> {
        let mut a = vec!["customasm".to_string()];
        let groups = self.groups.clone();
        let ngroups = groups.len().max(1);
        let at = self.root_group.min(ngroups - 1);
        for gi in 0..ngroups {
            if gi > 0 {
                a.push("--".to_string());
            }
            if gi == at {
                for r in &self.roots {
                    a.push(r.clone());
                }
                if let Some(t) = &self.iters {
                    if self.long_opts {
                        a.push(if t.is_empty() { "--iters".to_string() } else { format!("--iters={}", t) });
                    } else {
                        a.push(format!("-t{}", t));
                    }
                }
                if self.no_opt_static {
                    a.push("--debug-no-optimize-static".to_string());
                }
                if self.no_opt_matcher {
                    a.push("--debug-no-optimize-matcher".to_string());
                }
                if self.debug_iters {
                    a.push("--debug-iters".to_string());
                }
                for d in &self.defines {
                    if self.long_opts {
                        a.push(format!("--define={}", d));
                    } else {
                        a.push("-d".to_string());
                        a.push(d.clone());
                    }
                }
                if self.quiet {
                    a.push(if self.long_opts { "--quiet" } else { "-q" }.to_string());
                }
                if let Some(c) = &self.color {
                    a.push(format!("--color={}", c));
                }
                if self.help {
                    a.push(if self.long_opts { "--help" } else { "-h" }.to_string());
                }
                if self.version {
                    a.push(if self.long_opts { "--version" } else { "-v" }.to_string());
                }
            }
            if let Some(g) = groups.get(gi) {
                if let Some(f) = &g.format {
                    if self.long_opts {
                        a.push(format!("--format={}", f));
                    } else {
                        a.push("-f".to_string());
                        a.push(f.clone());
                    }
                }
                if let Some(o) = &g.out {
                    if self.long_opts {
                        a.push(format!("--output={}", o));
                    } else {
                        a.push("-o".to_string());
                        a.push(o.clone());
                    }
                }
                if g.print {
                    a.push(if self.long_opts { "--print" } else { "-p" }.to_string());
                }
            }
        }
        a
    }

    /// Build the library-level options equivalent to this command line, or
    /// None when some value is malformed (the driver rejects those itself).
    pub fn lib_opts(&self) -> Option<asm::AssemblyOptions> {
        let mut opts = asm::AssemblyOptions::new();
        if let Some(t) = &self.iters {
            match t.parse::<usize>() {
                Ok(n) if n > 0 => opts.max_iterations = n,
                _ => return None,
            }
        }
        opts.optimize_statically_known = !self.no_opt_static;
        opts.optimize_instruction_matching = !self.no_opt_matcher;
        for d in &self.defines {
            let parts: Vec<&str> = d.split('=').collect();
            let value = if parts.len() == 1 {
                expr::Value::make_bool(true)
            } else if parts.len() == 2 {
                match parts[1] {
                    "true" => expr::Value::make_bool(true),
                    "false" => expr::Value::make_bool(false),
                    v => {
                        let (neg, digits) = if let Some(r) = v.strip_prefix('-') { (true, r) } else { (false, v) };
                        if digits.is_empty() || !digits.chars().all(|c| c.is_ascii_alphanumeric()) {
                            return None;
                        }
                        match syntax::excerpt_as_bigint(None, diagn::Span::new_dummy(), digits) {
                            Ok(b) => {
                                use std::ops::Neg;
                                expr::Value::make_integer(if neg { b.neg() } else { b })
                            }
                            Err(()) => return None,
                        }
                    }
                }
            } else {
                return None;
            };
            opts.driver_symbol_defs.push_def(asm::DriverSymbolDef { name: parts[0].to_string(), value });
        }
        Some(opts)
    }
}

#[derive(Clone, Debug, PartialEq, Eq, Serialize, Deserialize)]
pub struct Job {
    pub name: String,
    pub disk: Disk,
    pub argv: Vec<String>,
    pub use_std: bool,
    pub spec: Option<Spec>,
}

impl Job {
    pub fn from_spec(name: &str, disk: Disk, spec: Spec) -> Job {
        Job { name: name.to_string(), disk, argv: spec.render(), use_std: true, spec: Some(spec) }
    }

    pub fn digest(&self) -> (u64, u64) {
        let mut j = self.clone();
        j.name = String::new();
        digest128(serde_json::to_string(&j).unwrap().as_bytes())
    }
}

#[derive(Clone, Debug, PartialEq, Eq, Serialize, Deserialize)]
pub enum Outcome {
    Ok,
    Err,
    Panic(String),
}

#[derive(Clone, Debug, PartialEq, Eq, Serialize, Deserialize)]
pub struct WriteRec {
    pub spelling: String,
    pub resolved: String,
    #[serde(with = "b64")]
    pub data: Vec<u8>,
    pub complete: bool,
}

#[derive(Clone, Debug, PartialEq, Eq, Serialize, Deserialize, Default)]
pub struct LibRecord {
    pub ran: bool,
    pub panic: Option<String>,
    pub error: bool,
    pub has_output: bool,
    pub report_has_errors: bool,
    pub iterations: Option<usize>,
    pub bits_len: usize,
    /// (format string, digest of formatted bytes)
    pub formats: Vec<(String, String)>,
    pub diag_plain: String,
    pub diag_color_digest: String,
    /// lines in the `symbols` listing (hash-order-sensitive items)
    pub symbol_count: usize,
    /// Some(description) when `customasm::assemble_str_to_binary` on the root
    /// file's text broke its contract (bytes present <=> no error reported)
    #[serde(default)]
    pub str_api: Option<String>,
}

#[derive(Clone, Debug, PartialEq, Eq, Serialize, Deserialize)]
pub struct Record {
    pub outcome: Outcome,
    #[serde(with = "b64")]
    pub stdout: Vec<u8>,
    #[serde(with = "b64")]
    pub stderr: Vec<u8>,
    pub writes: Vec<WriteRec>,
    /// files present afterwards that were not present before
    pub new_files: Vec<String>,
    pub events: Vec<Event>,
    pub fired: Vec<u32>,
    pub lib: LibRecord,
}

impl Record {
    /// Everything that must be identical across environments (C10): the
    /// seam events minus scheduler-global fields.
    pub fn comparable(&self) -> String {
        let ev: Vec<String> = self.events.iter().map(|e| format!("{:?}|{}|{}|{}|{}", e.op, e.spelling, e.resolved, e.ok, e.n)).collect();
        let w: Vec<String> = self.writes.iter().map(|w| format!("{}|{}|{}|{}", w.spelling, w.resolved, hex128(digest128(&w.data)), w.complete)).collect();
        format!(
            "outcome={:?}\nstdout={}\nstderr={}\nwrites={:?}\nnew={:?}\nlib={:?}\nevents={:?}",
            self.outcome,
            String::from_utf8_lossy(&self.stdout),
            String::from_utf8_lossy(&self.stderr),
            w,
            self.new_files,
            self.lib,
            ev
        )
    }

    pub fn error_lines(&self) -> usize {
        top_level_errors(&self.stderr)
    }
}

/// Count top-level `error:` diagnostics in printed output (colour codes
/// stripped). Nested messages are printed with a " + " prefix / indentation.
pub fn top_level_errors(stderr: &[u8]) -> usize {
    let text = strip_ansi(&String::from_utf8_lossy(stderr));
    // nested messages are printed indented behind " + "; an error wrapped in
    // a note ("note: match attempted … + error: no match found") is still an
    // error diagnostic
    text.lines().filter(|l| l.trim_start().trim_start_matches("+ ").starts_with("error: ")).count()
}

pub fn strip_ansi(s: &str) -> String {
    let mut out = String::new();
    let mut chars = s.chars().peekable();
    while let Some(c) = chars.next() {
        if c == '\u{1b}' {
            if chars.peek() == Some(&'[') {
                chars.next();
                while let Some(d) = chars.next() {
                    if d.is_ascii_alphabetic() {
                        break;
                    }
                }
            }
            continue;
        }
        out.push(c);
    }
    out
}

pub const ALL_FORMATS: &[&str] = &[
    "binary", "annotated", "annotated,base:2,group:3", "annotatedhex", "annotatedbin", "binstr", "hexstr", "bindump", "hexdump", "mif", "intelhex", "intelhex,addr_unit:16", "deccomma",
    "hexcomma", "decspace", "hexspace", "decc", "hexc", "logisim8", "logisim16", "addrspan", "tcgame", "tcgamebin", "symbols", "mesen-mlb",
];

pub struct ExecEnv {
    pub sched: Option<(Arc<Sched>, usize)>,
    /// do the library-level pass (I3, all formats)
    pub lib_pass: bool,
    /// format the result in every output format (C10 record)
    pub all_formats: bool,
    /// number of unrelated handles the embedding host registered before the
    /// built-in library (shifts every file handle; 0 in the canonical
    /// environment)
    pub handle_offset: usize,
}

fn catch<F: FnOnce() -> R, R>(f: F) -> Result<R, String> {
    let _ = seams::take_last_panic();
    match std::panic::catch_unwind(std::panic::AssertUnwindSafe(f)) {
        Ok(r) => Ok(r),
        Err(_) => Err(seams::take_last_panic().unwrap_or_else(|| "<panic>".to_string())),
    }
}

/// Run the job. `server`: Some(reused server) or None for a fresh one.
/// Returns the record and the server (for reuse by a later job).
pub fn exec_job(job: &Job, faults: &[Fault], env: &ExecEnv, server: Option<SimFileServer>, cap: &seams::Capture) -> (Record, SimFileServer, bool) {
    let before: Vec<String> = job.disk.nodes.keys().cloned().collect();

    let mut reused = false;
    let mut fs = match server {
        Some(mut s) => {
            if s.rebind(job.disk.clone(), faults.to_vec()) {
                s.sched = env.sched.clone();
                reused = true;
                s
            } else {
                fresh_server(job, faults, env)
            }
        }
        None => fresh_server(job, faults, env),
    };

    let _ = cap.take();
    let r = catch(|| driver::drive_from_commandline(&job.argv, &mut fs));
    let (stdout, stderr) = cap.take();
    // (only Ok/Err is looked at, so that a change of the error payload type
    // of the driver does not break the harness build)
    let outcome = match r {
        Ok(res) => {
            if res.is_ok() {
                Outcome::Ok
            } else {
                Outcome::Err
            }
        }
        Err(p) => Outcome::Panic(p),
    };

    let (writes, new_files, events, fired) = {
        let mut inner = fs.inner.borrow_mut();
        let writes: Vec<WriteRec> = inner.writes.drain(..).map(|(s, r, d, c)| WriteRec { spelling: s, resolved: r, data: d, complete: c }).collect();
        let new_files: Vec<String> = inner.disk.nodes.keys().filter(|k| !before.contains(k)).cloned().collect();
        let events = std::mem::take(&mut inner.log);
        let fired = inner.fired.clone();
        (writes, new_files, events, fired)
    };

    let mut lib = LibRecord::default();
    if env.lib_pass {
        lib = lib_pass(job, faults, env);
    }

    (Record { outcome, stdout, stderr, writes, new_files, events, fired, lib }, fs, reused)
}

fn fresh_server(job: &Job, faults: &[Fault], env: &ExecEnv) -> SimFileServer {
    let mut fs = SimFileServer::new(job.disk.clone(), faults.to_vec(), env.sched.clone());
    // handle layout = how many unrelated handles the host registered first
    // (low four bits) and in which order it registered the built-in library
    // (the rest: a rotation of the table; which library file gets the lowest
    // handle depends on the host's build, not on the program)
    fs.add_placeholder_handles(env.handle_offset % 16);
    if job.use_std {
        let mut table = STD_FILES.to_vec();
        let rot = (env.handle_offset / 16) % table.len().max(1);
        table.rotate_left(rot);
        fs.add_std_files(&table);
    }
    fs
}

/// Library-level pass: `asm::assemble` with the options the command line
/// denotes, on a fresh server over the same disk and fault plan.
fn lib_pass(job: &Job, faults: &[Fault], env: &ExecEnv) -> LibRecord {
    let mut lib = LibRecord::default();
    let (roots, opts) = match &job.spec {
        Some(spec) => {
            if spec.help || spec.version || spec.roots.is_empty() {
                return lib;
            }
            match spec.lib_opts() {
                Some(o) => (spec.roots.clone(), o),
                None => return lib,
            }
        }
        None => return lib,
    };
    // the string convenience API: output present <=> no error in the report
    if faults.is_empty() && roots.len() == 1 {
        if let Some(crate::disk::Node::File(text)) = job.disk.resolve(&roots[0]).ok().and_then(|r| job.disk.nodes.get(&r.abs).cloned()) {
            let src = String::from_utf8_lossy(&text).to_string();
            match catch(|| customasm::assemble_str_to_binary(&src)) {
                Err(p) => lib.str_api = Some(format!("panic: {}", p)),
                Ok((bytes, report)) => {
                    if bytes.is_some() == report.has_errors() {
                        lib.str_api = Some(format!("inconsistent: bytes present = {}, report.has_errors() = {}", bytes.is_some(), report.has_errors()));
                    }
                }
            }
        }
    }
    let mut fs = fresh_server(job, faults, env);
    let mut report = diagn::Report::new();
    lib.ran = true;
    let r = catch(|| asm::assemble(&mut report, &opts, &mut fs, &roots));
    match r {
        Err(p) => {
            lib.panic = Some(p);
        }
        Ok(assembly) => {
            lib.error = assembly.error;
            lib.has_output = assembly.output.is_some();
            lib.report_has_errors = report.has_errors();
            lib.iterations = assembly.iterations_taken;
            if let (Some(output), Some(decls), Some(defs)) = (assembly.output.as_ref(), assembly.decls.as_ref(), assembly.defs.as_ref()) {
                lib.bits_len = output.len();
                if env.all_formats {
                    for f in ALL_FORMATS {
                        let mut r2 = diagn::Report::new();
                        if let Ok(fmt) = driver::parse_output_format(&mut r2, f) {
                            let res = catch(|| driver::format_output(&fs, decls, defs, output, fmt));
                            match res {
                                Ok(bytes) => {
                                    if *f == "symbols" {
                                        lib.symbol_count = bytes.iter().filter(|b| **b == b'\n').count();
                                    }
                                    lib.formats.push((f.to_string(), hex128(digest128(&bytes))))
                                }
                                Err(p) => lib.formats.push((f.to_string(), format!("PANIC {}", p))),
                            }
                        }
                    }
                }
            }
            let mut plain = Vec::new();
            let mut color = Vec::new();
            let pr = catch(|| {
                report.print_all(&mut plain, &fs, false);
                report.print_all(&mut color, &fs, true);
            });
            if let Err(p) = pr {
                lib.panic = Some(format!("print_all: {}", p));
            }
            lib.diag_plain = String::from_utf8_lossy(&plain).to_string();
            lib.diag_color_digest = hex128(digest128(&color));
        }
    }
    lib
}

/// Format the assembly result of a successful run in the format a group
/// asked for (used by C03's success-side check).
pub fn expected_group_bytes(job: &Job, format: &Option<String>, print: bool) -> Option<Vec<u8>> {
    let spec = job.spec.as_ref()?;
    let opts = spec.lib_opts()?;
    let mut fs = SimFileServer::new(job.disk.clone(), vec![], None);
    if job.use_std {
        fs.add_std_files(STD_FILES);
    }
    let mut report = diagn::Report::new();
    let assembly = catch(|| asm::assemble(&mut report, &opts, &mut fs, &spec.roots)).ok()?;
    let output = assembly.output.as_ref()?;
    let fmt = match format {
        Some(f) => driver::parse_output_format(&mut diagn::Report::new(), f).ok()?,
        None => {
            if print {
                driver::OutputFormat::Annotated { base: 16, group: 2 }
            } else {
                driver::OutputFormat::Binary
            }
        }
    };
    catch(|| driver::format_output(&fs, assembly.decls.as_ref().unwrap(), assembly.defs.as_ref().unwrap(), output, fmt)).ok()
}

pub fn std_file_content(name: &str) -> Option<&'static str> {
    STD_FILES.iter().find(|(n, _)| *n == name).map(|(_, c)| *c)
}

pub fn std_file_names() -> Vec<&'static str> {
    STD_FILES.iter().map(|(n, _)| *n).collect()
}

#[allow(dead_code)]
pub fn unused(_: &dyn util::FileServer) {}
