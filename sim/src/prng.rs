//! The only source of randomness in the simulator: SplitMix64 seeding a
//! xoshiro256** generator. Sub-streams are derived by label so that adding a
//! draw in one place never shifts the draws of another.

#[derive(Clone, Debug)]
pub struct Rng {
    s: [u64; 4],
}

pub fn splitmix(x: &mut u64) -> u64 {
    *x = x.wrapping_add(0x9E3779B97F4A7C15);
    let mut z = *x;
    z = (z ^ (z >> 30)).wrapping_mul(0xBF58476D1CE4E5B9);
    z = (z ^ (z >> 27)).wrapping_mul(0x94D049BB133111EB);
    z ^ (z >> 31)
}

/// FNV-1a over bytes, 64 bit — used for labels and digests (not security).
pub fn fnv64(data: &[u8]) -> u64 {
    let mut h: u64 = 0xcbf29ce484222325;
    for b in data {
        h ^= *b as u64;
        h = h.wrapping_mul(0x100000001b3);
    }
    h
}

/// 128-bit digest (two independent FNV-style lanes, finalised with splitmix).
pub fn digest128(data: &[u8]) -> (u64, u64) {
    let mut a: u64 = 0xcbf29ce484222325;
    let mut b: u64 = 0x84222325cbf29ce4;
    for x in data {
        a ^= *x as u64;
        a = a.wrapping_mul(0x100000001b3);
        b = (b ^ (*x as u64).wrapping_add(0x9E37)).wrapping_mul(0x9E3779B97F4A7C15);
        b = b.rotate_left(23);
    }
    let mut sa = a ^ (data.len() as u64);
    let mut sb = b.wrapping_add(data.len() as u64);
    (splitmix(&mut sa), splitmix(&mut sb))
}

pub fn hex128(d: (u64, u64)) -> String {
    format!("{:016x}{:016x}", d.0, d.1)
}

impl Rng {
    pub fn new(seed: u64) -> Rng {
        let mut x = seed;
        let s = [splitmix(&mut x), splitmix(&mut x), splitmix(&mut x), splitmix(&mut x)];
        Rng { s }
    }

    /// Independent sub-stream identified by a label.
    pub fn fork(&self, label: &str) -> Rng {
        let mut x = self.s[0] ^ self.s[2].rotate_left(17) ^ fnv64(label.as_bytes());
        let _ = splitmix(&mut x);
        Rng::new(x)
    }

    pub fn fork_n(&self, label: &str, n: u64) -> Rng {
        let mut x = self.s[1] ^ self.s[3].rotate_left(29) ^ fnv64(label.as_bytes()) ^ n.wrapping_mul(0xD6E8FEB86659FD93);
        let _ = splitmix(&mut x);
        Rng::new(x)
    }

    pub fn next(&mut self) -> u64 {
        let r = self.s[1].wrapping_mul(5).rotate_left(7).wrapping_mul(9);
        let t = self.s[1] << 17;
        self.s[2] ^= self.s[0];
        self.s[3] ^= self.s[1];
        self.s[1] ^= self.s[2];
        self.s[0] ^= self.s[3];
        self.s[2] ^= t;
        self.s[3] = self.s[3].rotate_left(45);
        r
    }

    /// Uniform in 0..n (n > 0).
    pub fn below(&mut self, n: usize) -> usize {
        debug_assert!(n > 0);
        ((self.next() >> 11) % (n as u64)) as usize
    }

    pub fn range(&mut self, lo: usize, hi_incl: usize) -> usize {
        lo + self.below(hi_incl - lo + 1)
    }

    pub fn chance(&mut self, num: usize, den: usize) -> bool {
        self.below(den) < num
    }

    pub fn pick<'a, T>(&mut self, xs: &'a [T]) -> &'a T {
        &xs[self.below(xs.len())]
    }

    pub fn bytes16(&mut self) -> [u8; 16] {
        let a = self.next().to_le_bytes();
        let b = self.next().to_le_bytes();
        let mut out = [0u8; 16];
        out[..8].copy_from_slice(&a);
        out[8..].copy_from_slice(&b);
        out
    }

    pub fn shuffle<T>(&mut self, xs: &mut Vec<T>) {
        for i in (1..xs.len()).rev() {
            let j = self.below(i + 1);
            xs.swap(i, j);
        }
    }
}

/// Run seed for run `i` of property `prop` under VERIF_SEED `seed`.
pub fn run_seed(seed: u64, prop: &str, i: u64) -> u64 {
    let mut x = seed ^ fnv64(prop.as_bytes()).rotate_left(13) ^ i.wrapping_mul(0xA24BAED4963EE407);
    let a = splitmix(&mut x);
    a ^ splitmix(&mut x).rotate_left(31)
}
