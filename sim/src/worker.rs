//! Worker process: executes simulated runs i = from, from+stride, … < to of
//! one property and reports one JSON line per event to the orchestrator.
//! A write-ahead "step" line precedes every plan execution, so a crash that
//! kills the process (stack overflow, abort) is attributed to its step.

use crate::corpus::Corpus;
use crate::plan::{run_plan, PlanResult, SimPlan};
use crate::prng::run_seed;
use crate::replay::{Replay, Violation};
use crate::seams::Channel;
use crate::stats::Stats;

pub struct Ctx<'a> {
    pub chan: &'a Channel,
    pub prop: String,
    pub seed: u64,
    pub run: u64,
    pub run_seed: u64,
    pub step: u64,
    pub tier: String,
    /// (step number, file): write the plan of that step as a replay file
    /// instead of executing it, then exit
    pub dump: Option<(u64, String)>,
    pub stats: Stats,
    pub digest: u64,
    pub verif: String,
    /// C14: the structured case the next plan was rendered from (goes into
    /// the replay file if the process dies while executing it)
    pub pending_c14: Option<crate::c14::Case>,
}

impl<'a> Ctx<'a> {
    pub fn exec(&mut self, plan: &SimPlan, prop: &str) -> PlanResult {
        self.step += 1;
        if let Some((k, file)) = &self.dump {
            if *k == self.step {
                let r = Replay {
                    property: prop.to_string(),
                    tier: "lib".to_string(),
                    seed: self.seed,
                    run: self.run,
                    violation: Violation::new("I1-abort", "the process died while executing this plan".to_string()),
                    plan: plan.clone(),
                    c14: self.pending_c14.clone(),
                    proc: None,
                    minimised: false,
                    build: crate::replay::this_build().to_string(),
                    note: String::new(),
                };
                std::fs::write(file, serde_json::to_string_pretty(&r).unwrap()).unwrap();
                unsafe { libc::_exit(0) };
            }
        }
        self.chan.send(&format!("{{\"t\":\"step\",\"run\":{},\"step\":{}}}", self.run, self.step));
        let res = run_plan(plan);
        self.digest = crate::prng::fnv64(format!("{:016x}{}", self.digest, res.digest()).as_bytes());
        res
    }

    pub fn replay(&self, prop: &str, v: Violation, plan: SimPlan) -> Replay {
        Replay { property: prop.to_string(), tier: "lib".to_string(), seed: self.seed, run: self.run, violation: v, plan, c14: None, proc: None, minimised: false, build: crate::replay::this_build().to_string(), note: String::new() }
    }
}

pub struct WorkerArgs {
    pub prop: String,
    pub tier: String,
    pub seed: u64,
    pub from: u64,
    pub to: u64,
    pub stride: u64,
    pub dump: Option<(u64, String)>,
    pub repo: String,
    pub verif: String,
}

pub fn set_limits() {
    unsafe {
        let lim = libc::rlimit { rlim_cur: 1 << 30, rlim_max: 1 << 30 };
        libc::setrlimit(libc::RLIMIT_AS, &lim);
        let core = libc::rlimit { rlim_cur: 0, rlim_max: 0 };
        libc::setrlimit(libc::RLIMIT_CORE, &core);
    }
}

pub fn worker_main(chan: &Channel, a: WorkerArgs) {
    set_limits();
    let corpus: Corpus = crate::corpus::load(&a.repo);
    let mut i = a.from;
    while i < a.to {
        chan.send(&format!("{{\"t\":\"begin\",\"run\":{}}}", i));
        // One simulated run = one process: the run is executed in a forked
        // child, so that process-wide state (statics, once-initialised
        // tables) an assembly leaves behind can only come from the run's own
        // plan. That keeps every run a pure function of its plan — and its
        // replay in a fresh process faithful — whatever the code under test
        // keeps in globals. (No simulated thread is alive at this point.)
        let pid = unsafe { libc::fork() };
        if pid == 0 {
            unsafe {
                let lim = libc::rlimit { rlim_cur: 90, rlim_max: 100 };
                libc::setrlimit(libc::RLIMIT_CPU, &lim);
            }
            run_one(chan, &a, &corpus, i);
            unsafe { libc::_exit(0) };
        } else if pid > 0 {
            let mut status: libc::c_int = 0;
            unsafe {
                libc::waitpid(pid, &mut status, 0);
            }
            let died = if libc::WIFSIGNALED(status) {
                let sig = libc::WTERMSIG(status);
                Some(if sig == libc::SIGXCPU || sig == libc::SIGKILL { "hang".to_string() } else { format!("signal{}", sig) })
            } else if libc::WIFEXITED(status) && libc::WEXITSTATUS(status) != 0 {
                Some(format!("exit{}", libc::WEXITSTATUS(status)))
            } else {
                None
            };
            if let Some(reason) = died {
                chan.send(&format!("{{\"t\":\"died\",\"run\":{},\"reason\":\"{}\"}}", i, reason));
            }
        } else {
            // fork failed: run in this process
            run_one(chan, &a, &corpus, i);
        }
        i += a.stride;
    }
    chan.send("{\"t\":\"done\"}");
}

fn run_one(chan: &Channel, a: &WorkerArgs, corpus: &Corpus, i: u64) {
    let mut ctx = Ctx { chan, prop: a.prop.clone(), seed: a.seed, run: i, run_seed: run_seed(a.seed, &a.prop, i), step: 0, tier: a.tier.clone(), dump: a.dump.clone(), stats: Stats::default(), digest: 0, verif: a.verif.clone(), pending_c14: None };
    let violations: Vec<Replay> = match a.prop.as_str() {
        "C03" => crate::c03::run(&mut ctx, corpus),
        "C10" => crate::c10::run(&mut ctx, corpus),
        "C14" => crate::c14::run(&mut ctx, corpus),
        _ => panic!("unknown property"),
    };
    let line = serde_json::json!({"t": "end", "run": i, "steps": ctx.step, "stats": ctx.stats, "violations": violations, "digest": format!("{:016x}", ctx.digest)});
    chan.send(&line.to_string());
}
