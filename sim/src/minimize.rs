//! Minimisation of a violating plan while the same violation class persists,
//! and re-verification in a fresh process. Every trial is a subprocess
//! (`sim classify`), so process-killing violations minimise like any other.

use crate::replay::Replay;
use crate::seams::real_now;
use std::process::{Command, Stdio};

pub enum Verified {
    Reproduced,
    NotReproduced,
}

/// Classes observed when executing the replay in a fresh process.
pub fn classify_sub(r: &Replay, tmpdir: &str, tag: &str) -> Vec<String> {
    classify_full(r, tmpdir, tag).into_iter().map(|v| v.class).collect()
}

pub fn classify_full(r: &Replay, tmpdir: &str, tag: &str) -> Vec<crate::replay::Violation> {
    use crate::replay::Violation;
    let file = format!("{}/trial-{}-{}.json", tmpdir, std::process::id(), tag);
    if std::fs::write(&file, serde_json::to_string(r).unwrap()).is_err() {
        return vec![];
    }
    // the build that found it executes it again
    let exe = crate::replay::exe_for(&r.build);
    let child = Command::new(exe).arg("classify").arg(&file).env("SIM_CAPTURE_DIR", tmpdir).stdin(Stdio::null()).stdout(Stdio::piped()).stderr(Stdio::piped()).spawn();
    let (out, captured) = match child {
        Err(e) => (Err(e), Vec::new()),
        Ok(c) => {
            let pid = c.id();
            let out = c.wait_with_output();
            // what the dying process printed into its captured fd 2
            let mut captured = Vec::new();
            if let Ok(rd) = std::fs::read_dir(tmpdir) {
                for e in rd.filter_map(|e| e.ok()) {
                    let name = e.file_name().to_string_lossy().to_string();
                    if name.starts_with(&format!("cap-{}-", pid)) {
                        if let Ok(d) = std::fs::read(e.path()) {
                            captured.extend(d);
                        }
                        let _ = std::fs::remove_file(e.path());
                    }
                }
            }
            (out, captured)
        }
    };
    let _ = std::fs::remove_file(&file);
    match out {
        Err(_) => vec![],
        Ok(o) => {
            use std::os::unix::process::ExitStatusExt;
            if let Some(sig) = o.status.signal() {
                if sig == libc::SIGXCPU || sig == libc::SIGKILL {
                    return vec![Violation::new("I1-abort:hang", "process exceeded its CPU limit".to_string())];
                }
                let mut all = o.stderr.clone();
                all.extend_from_slice(&captured);
                // an allocation failure is the known magnitude defect only when
                // the program actually holds a magnitude (a string or a number
                // above 16 bits next to an address-like construct); otherwise
                // it is a runaway (a loop that accumulates) and keeps its site
                let why = abort_signature(&all).map(|w| if w.starts_with("oom") && replay_has_magnitude(r) { w.replacen("oom", "oom-magnitude", 1) } else { w });
                return vec![Violation::new(&format!("I1-abort:{}", why.unwrap_or_else(|| format!("signal{}", sig))), format!("process killed by signal {}: {}", sig, crate::orch::truncate(&String::from_utf8_lossy(&all), 300)))];
            }
            let text = String::from_utf8_lossy(&o.stdout);
            for line in text.lines() {
                if let Some(rest) = line.strip_prefix("CLASSES ") {
                    return serde_json::from_str::<Vec<Violation>>(rest).unwrap_or_default();
                }
            }
            match o.status.code() {
                Some(0) => vec![],
                Some(c) => vec![Violation::new(&format!("I1-abort:exit{}", c), format!("process exited with status {}", c))],
                None => vec![],
            }
        }
    }
}

/// A specific signature for a process death, from what the runtime printed:
/// "oom@<first customasm frame>" for a failed allocation, "stack-overflow".
pub fn abort_signature(stderr: &[u8]) -> Option<String> {
    let t = String::from_utf8_lossy(stderr);
    if t.contains("has overflowed its stack") {
        return Some("stack-overflow".to_string());
    }
    if t.contains("memory allocation of") {
        for line in t.lines() {
            let l = line.trim();
            if let Some(i) = l.find("customasm::") {
                let frame: String = l[i..].chars().map(|c| if c == ' ' { '_' } else { c }).collect();
                return Some(format!("oom@{}", frame));
            }
        }
        return Some("oom".to_string());
    }
    None
}

/// Does any source file (or define) of the replayed jobs combine a
/// magnitude-consuming construct with a string literal or a number above 16
/// bits on one line?
pub fn replay_has_magnitude(r: &Replay) -> bool {
    let mut jobs: Vec<&crate::job::Job> = r.plan.jobs.iter().collect();
    if let Some(p) = &r.proc {
        jobs.push(&p.job);
    }
    jobs.iter().any(|j| job_has_magnitude(j))
}

pub fn job_has_magnitude(job: &crate::job::Job) -> bool {
    for (path, data) in job.disk.files() {
        if !path.starts_with(crate::corpus::PROJ) {
            continue;
        }
        // every line counts as "changed" against an empty text
        if crate::mutate::magnitude_risky(b"", data) {
            return true;
        }
    }
    job.argv.iter().any(|a| a.split('=').nth(1).map(|v| crate::mutate::is_big_number(v.as_bytes())).unwrap_or(false))
}

fn same_class(target: &str, got: &[String]) -> bool {
    // abort classes: any process death counts as the same class
    if target.starts_with("I1-abort") {
        return got.iter().any(|g| g.starts_with("I1-abort"));
    }
    got.iter().any(|g| g == target)
}

struct Min<'a> {
    target: String,
    tmpdir: &'a str,
    deadline: f64,
    trials: u64,
}

impl<'a> Min<'a> {
    fn ok(&mut self, r: &Replay) -> bool {
        if real_now() > self.deadline {
            return false;
        }
        self.trials += 1;
        same_class(&self.target, &classify_sub(r, self.tmpdir, "m"))
    }
}

/// Remove `jobs[k]` from the plan, renumbering thread queues.
fn drop_job(r: &Replay, k: usize) -> Replay {
    let mut n = r.clone();
    n.plan.jobs.remove(k);
    n.plan.faults.remove(k);
    for t in n.plan.threads.iter_mut() {
        let mut jobs = Vec::new();
        let mut reuse = Vec::new();
        let mut offsets = Vec::new();
        for (p, j) in t.jobs.iter().enumerate() {
            if *j == k {
                continue;
            }
            jobs.push(if *j > k { *j - 1 } else { *j });
            reuse.push(t.reuse.get(p).copied().unwrap_or(false));
            offsets.push(t.offsets.get(p).copied().unwrap_or(0));
        }
        t.jobs = jobs;
        t.reuse = reuse;
        t.offsets = offsets;
    }
    n.plan.threads.retain(|t| !t.jobs.is_empty());
    n
}

fn ddmin_lines(m: &mut Min, r: &Replay, job: usize, path: &str) -> Replay {
    let mut best = r.clone();
    let get = |x: &Replay| -> Vec<u8> {
        match x.plan.jobs[job].disk.nodes.get(path) {
            Some(crate::disk::Node::File(d)) => d.clone(),
            _ => vec![],
        }
    };
    let set = |x: &Replay, data: Vec<u8>| -> Replay {
        let mut n = x.clone();
        n.plan.jobs[job].disk.nodes.insert(path.to_string(), crate::disk::Node::File(data));
        n
    };
    let mut lines: Vec<Vec<u8>> = get(&best).split_inclusive(|b| *b == b'\n').map(|l| l.to_vec()).collect();
    let mut chunk = (lines.len() + 1) / 2;
    while chunk >= 1 && !lines.is_empty() {
        let mut i = 0;
        let mut progressed = false;
        while i < lines.len() {
            let end = (i + chunk).min(lines.len());
            let mut cand = lines.clone();
            cand.drain(i..end);
            let trial = set(&best, cand.concat());
            if m.ok(&trial) {
                lines = cand;
                best = trial;
                progressed = true;
            } else {
                i = end;
            }
            if real_now() > m.deadline {
                return best;
            }
        }
        if chunk == 1 && !progressed {
            break;
        }
        if chunk > 1 {
            chunk = (chunk + 1) / 2;
        }
    }
    best
}

pub fn minimise(r: &Replay, tmpdir: &str, budget_s: f64) -> Replay {
    let mut m = Min { target: r.violation.class.clone(), tmpdir, deadline: real_now() + budget_s, trials: 0 };
    let mut best = r.clone();
    if best.c14.is_some() {
        return crate::c14::minimise(r, tmpdir, budget_s);
    }
    if best.proc.is_some() || best.plan.jobs.is_empty() {
        return crate::procsim::minimise(r, tmpdir, budget_s);
    }

    // 1. drop jobs
    let mut k = best.plan.jobs.len();
    while k > 0 {
        k -= 1;
        if best.plan.jobs.len() <= 1 {
            break;
        }
        let cand = drop_job(&best, k);
        if !cand.plan.jobs.is_empty() && m.ok(&cand) {
            best = cand;
        }
    }
    // 2. collapse to one thread
    if best.plan.threads.len() > 1 {
        let mut cand = best.clone();
        let mut jobs = Vec::new();
        let mut reuse = Vec::new();
        let mut offsets = Vec::new();
        for t in &cand.plan.threads {
            for p in 0..t.jobs.len() {
                jobs.push(t.jobs[p]);
                reuse.push(t.reuse.get(p).copied().unwrap_or(false));
                offsets.push(t.offsets.get(p).copied().unwrap_or(0));
            }
        }
        let keys = cand.plan.threads[0].keys.clone();
        cand.plan.threads = vec![crate::plan::ThreadPlan { keys, jobs, reuse, offsets }];
        cand.plan.schedule.clear();
        cand.plan.sched_seed = None;
        if m.ok(&cand) {
            best = cand;
        }
    }
    // 3. run to completion instead of the recorded schedule
    if !best.plan.schedule.is_empty() || best.plan.sched_seed.is_some() {
        let mut cand = best.clone();
        cand.plan.schedule.clear();
        cand.plan.sched_seed = None;
        if m.ok(&cand) {
            best = cand;
        }
    }
    // 3b. no environment variables
    if !best.plan.env.is_empty() {
        let mut cand = best.clone();
        cand.plan.env.clear();
        if m.ok(&cand) {
            best = cand;
        }
    }
    // 4. zero the clock script
    if !best.plan.clock.is_empty() {
        let mut cand = best.clone();
        cand.plan.clock.clear();
        if m.ok(&cand) {
            best = cand;
        }
    }
    // 4b. no server reuse, canonical handle layout
    {
        let mut cand = best.clone();
        for t in cand.plan.threads.iter_mut() {
            for x in t.offsets.iter_mut() {
                *x = 0;
            }
        }
        if cand.plan != best.plan && m.ok(&cand) {
            best = cand;
        }
    }
    {
        let mut cand = best.clone();
        for t in cand.plan.threads.iter_mut() {
            for x in t.reuse.iter_mut() {
                *x = false;
            }
        }
        if cand.plan != best.plan && m.ok(&cand) {
            best = cand;
        }
    }
    // 5. drop fault-plan entries
    for j in 0..best.plan.faults.len() {
        let mut i = best.plan.faults[j].len();
        while i > 0 {
            i -= 1;
            let mut cand = best.clone();
            cand.plan.faults[j].remove(i);
            if m.ok(&cand) {
                best = cand;
            }
        }
    }
    // 6. simplify the command line through the structured description
    for j in 0..best.plan.jobs.len() {
        if best.plan.jobs[j].spec.is_some() {
            loop {
                let cur = best.plan.jobs[j].spec.clone().unwrap();
                let mut tries: Vec<crate::job::Spec> = Vec::new();
                for d in 0..cur.defines.len() {
                    let mut s = cur.clone();
                    s.defines.remove(d);
                    tries.push(s);
                }
                if cur.groups.len() > 1 {
                    for g in 0..cur.groups.len() {
                        let mut s = cur.clone();
                        s.groups.remove(g);
                        tries.push(s);
                    }
                }
                if cur.roots.len() > 1 {
                    for g in 0..cur.roots.len() {
                        let mut s = cur.clone();
                        s.roots.remove(g);
                        tries.push(s);
                    }
                }
                for f in 0..6 {
                    let mut s = cur.clone();
                    match f {
                        0 => s.iters = None,
                        1 => s.no_opt_static = false,
                        2 => s.no_opt_matcher = false,
                        3 => s.debug_iters = false,
                        4 => s.color = None,
                        _ => s.quiet = true,
                    }
                    tries.push(s);
                }
                let mut progressed = false;
                for s in tries {
                    if s == cur {
                        continue;
                    }
                    let mut cand = best.clone();
                    cand.plan.jobs[j].argv = s.render();
                    cand.plan.jobs[j].spec = Some(s);
                    if m.ok(&cand) {
                        best = cand;
                        progressed = true;
                        break;
                    }
                }
                if !progressed || real_now() > m.deadline {
                    break;
                }
            }
        } else {
            let mut i = best.plan.jobs[j].argv.len();
            while i > 1 {
                i -= 1;
                let mut cand = best.clone();
                cand.plan.jobs[j].argv.remove(i);
                if m.ok(&cand) {
                    best = cand;
                }
            }
        }
    }
    // 7. drop files (never opened first — but simply try each)
    for j in 0..best.plan.jobs.len() {
        let paths: Vec<String> = best.plan.jobs[j].disk.nodes.iter().filter(|(_, n)| matches!(n, crate::disk::Node::File(_))).map(|(p, _)| p.clone()).collect();
        // all at once those outside the project first
        for p in paths {
            let mut cand = best.clone();
            cand.plan.jobs[j].disk.nodes.remove(&p);
            if m.ok(&cand) {
                best = cand;
            }
            if real_now() > m.deadline {
                break;
            }
        }
    }
    // 8. line-level ddmin over the remaining files
    for j in 0..best.plan.jobs.len() {
        let paths: Vec<String> = best.plan.jobs[j].disk.nodes.iter().filter(|(_, n)| matches!(n, crate::disk::Node::File(_))).map(|(p, _)| p.clone()).collect();
        for p in paths {
            best = ddmin_lines(&mut m, &best, j, &p);
        }
    }
    // 9. canonical keys
    {
        let mut cand = best.clone();
        for t in cand.plan.threads.iter_mut() {
            t.keys = "00000000000000000000000000000000".to_string();
        }
        if cand.plan != best.plan && m.ok(&cand) {
            best = cand;
        }
    }
    best.minimised = true;
    best.note = format!("minimised with {} subprocess trials", m.trials);
    best
}

pub fn minimise_and_verify(r: &Replay, tmpdir: &str, budget_s: f64) -> (Replay, Verified) {
    // the unminimised plan must reproduce in a fresh process first
    let got = classify_sub(r, tmpdir, "v0");
    if !same_class(&r.violation.class, &got) {
        return (r.clone(), Verified::NotReproduced);
    }
    let min = minimise(r, tmpdir, budget_s);
    let full = classify_full(&min, tmpdir, "v1");
    let got: Vec<String> = full.iter().map(|v| v.class.clone()).collect();
    if same_class(&r.violation.class, &got) {
        let mut min = min;
        if let Some(v) = full.iter().find(|v| v.class == r.violation.class) {
            min.violation.detail = v.detail.clone();
        }
        (min, Verified::Reproduced)
    } else {
        // keep the unminimised one; it did reproduce
        (r.clone(), Verified::Reproduced)
    }
}
