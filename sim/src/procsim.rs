//! Tier B — the shipped `customasm` binary, built from /repo's working tree,
//! run in a fresh process in a scratch tree on tmpfs under the LD_PRELOAD
//! syscall-seam shim (/verif/shim/shim.c). Nothing is stubbed: main.rs,
//! FileServerReal, println! and the kernel's path resolution are all real;
//! only the outcomes the plan overrides are simulated.

use crate::corpus::Corpus;
use crate::disk::{b64, Node};
use crate::job::Job;
use crate::prng::run_seed;
use crate::replay::{Replay, Violation};
use crate::seams::Channel;
use crate::stats::Stats;
use crate::worker::{Ctx, WorkerArgs};
use serde::{Deserialize, Serialize};
use std::collections::BTreeMap;
use std::os::unix::process::CommandExt;
use std::os::unix::process::ExitStatusExt;
use std::process::{Command, Stdio};
use std::sync::atomic::{AtomicU64, Ordering};

#[derive(Clone, Debug, PartialEq, Eq, Serialize, Deserialize)]
pub struct ProcFault {
    pub kind: String,
    /// absolute path on the simulated disk, or "*"
    pub path: String,
}

#[derive(Clone, Debug, PartialEq, Eq, Serialize, Deserialize)]
pub struct ProcPlan {
    pub job: Job,
    pub faults: Vec<ProcFault>,
    pub keys: String,
    pub clock: Option<i64>,
    /// varies the scratch location (part of the environment for C10)
    pub scratch_tag: String,
    /// extra environment variables of the child process
    #[serde(default)]
    pub env: Vec<(String, String)>,
    /// connect the child's stdout to /dev/full (a sink fault: outside every
    /// property's fault set, used only as a probe — see c03::run_proc)
    #[serde(default)]
    pub stdout_full: bool,
}

#[derive(Clone, Debug, PartialEq, Eq, Serialize, Deserialize)]
pub struct ShimEvent {
    pub op: String,
    pub path: String,
    /// path on the simulated disk ("/w/proj/x"), or "!<real path>" when the
    /// access resolved outside the scratch root
    pub resolved: String,
    pub ret: i64,
    pub errno: i32,
    pub fault: bool,
}

#[derive(Clone, Debug, PartialEq, Eq, Serialize, Deserialize, Default)]
pub struct ProcRecord {
    pub skipped: Option<String>,
    pub exit: Option<i32>,
    pub signal: Option<i32>,
    #[serde(with = "b64")]
    pub stdout: Vec<u8>,
    #[serde(with = "b64")]
    pub stderr: Vec<u8>,
    /// files that are new or whose content changed: sim path -> content
    pub changed: BTreeMap<String, String>,
    pub events: Vec<ShimEvent>,
    /// (kind, sim path, times fired)
    pub fired: Vec<(String, String, u64)>,
}

impl ProcRecord {
    pub fn comparable(&self) -> String {
        format!("exit={:?} signal={:?}\nstdout={}\nstderr={}\nchanged={:?}\nevents={:?}", self.exit, self.signal, String::from_utf8_lossy(&self.stdout), String::from_utf8_lossy(&self.stderr), self.changed, self.events.iter().map(|e| format!("{}|{}|{}|{}|{}", e.op, e.path, e.resolved, e.ret, e.errno)).collect::<Vec<_>>())
    }

    pub fn error_lines(&self) -> usize {
        crate::job::top_level_errors(&self.stderr)
    }

    pub fn any_fired(&self, pred: fn(&str) -> bool) -> bool {
        self.fired.iter().any(|(k, _, n)| *n > 0 && pred(k))
    }
}

pub fn available(verif: &str) -> bool {
    std::path::Path::new(&format!("{}/target/shim.so", verif)).exists() && std::path::Path::new(&format!("{}/target/repo-bin/release/customasm", verif)).exists()
}

static COUNTER: AtomicU64 = AtomicU64::new(0);

fn collect_files(dir: &std::path::Path, root: &str, out: &mut BTreeMap<String, Vec<u8>>) {
    let rd = match std::fs::read_dir(dir) {
        Ok(r) => r,
        Err(_) => return,
    };
    for e in rd.filter_map(|e| e.ok()) {
        let p = e.path();
        let ft = match e.file_type() {
            Ok(t) => t,
            Err(_) => continue,
        };
        if ft.is_dir() {
            collect_files(&p, root, out);
        } else if ft.is_file() {
            let sim = p.to_string_lossy()[root.len()..].to_string();
            if let Ok(d) = std::fs::read(&p) {
                out.insert(sim, d);
            }
        }
    }
}

/// Can this job be put on a real file system under a scratch root?
pub fn materialisable(job: &Job) -> Result<(), String> {
    for a in job.argv.iter().skip(1) {
        if a.starts_with('/') || a.contains("=/") || a.as_bytes().contains(&0) {
            return Err("absolute path in argv".to_string());
        }
    }
    for (p, _) in job.disk.nodes.iter() {
        if p.as_bytes().contains(&0) || p.len() > 200 {
            return Err("unrepresentable path".to_string());
        }
    }
    Ok(())
}

pub fn run_proc(plan: &ProcPlan, verif: &str) -> ProcRecord {
    let mut rec = ProcRecord::default();
    if let Err(why) = materialisable(&plan.job) {
        rec.skipped = Some(why);
        return rec;
    }
    let n = COUNTER.fetch_add(1, Ordering::SeqCst);
    let root = format!("/dev/shm/vsim-{}-{}{}", std::process::id(), n, plan.scratch_tag);
    let log = format!("{}.log", root);
    let _ = std::fs::remove_dir_all(&root);
    let _ = std::fs::remove_file(&log);
    // materialise the disk
    for (p, node) in plan.job.disk.nodes.iter() {
        let real = format!("{}{}", root, p);
        match node {
            Node::Dir => {
                let _ = std::fs::create_dir_all(&real);
            }
            Node::File(d) => {
                if let Some(parent) = std::path::Path::new(&real).parent() {
                    let _ = std::fs::create_dir_all(parent);
                }
                if std::fs::write(&real, d).is_err() {
                    rec.skipped = Some(format!("cannot materialise {}", p));
                    let _ = std::fs::remove_dir_all(&root);
                    return rec;
                }
            }
        }
    }
    let cwd = format!("{}{}", root, plan.job.disk.cwd);
    let _ = std::fs::create_dir_all(&cwd);
    let mut before = BTreeMap::new();
    collect_files(std::path::Path::new(&root), &root, &mut before);

    let plan_text: Vec<String> = plan.faults.iter().map(|f| if f.path == "*" { format!("{} *", f.kind) } else { format!("{} {}{}", f.kind, root, f.path) }).collect();
    let mut cmd = Command::new(format!("{}/target/repo-bin/release/customasm", verif));
    cmd.args(plan.job.argv.iter().skip(1))
        .current_dir(&cwd)
        .env_clear()
        .env("LD_PRELOAD", format!("{}/target/shim.so", verif))
        .env("SHIM_ROOT", &root)
        .env("SHIM_LOG", &log)
        .env("SHIM_KEYS", &plan.keys)
        .env("SHIM_PLAN", plan_text.join("\n"))
        .stdin(Stdio::null())
        .stdout(Stdio::piped())
        .stderr(Stdio::piped());
    if plan.stdout_full {
        if let Ok(f) = std::fs::OpenOptions::new().write(true).open("/dev/full") {
            cmd.stdout(Stdio::from(f));
        }
    }
    if let Some(c) = plan.clock {
        cmd.env("SHIM_CLOCK", c.to_string());
    }
    for (k, v) in &plan.env {
        cmd.env(k, v);
    }
    unsafe {
        cmd.pre_exec(|| {
            let cpu = libc::rlimit { rlim_cur: 60, rlim_max: 65 };
            libc::setrlimit(libc::RLIMIT_CPU, &cpu);
            let mem = libc::rlimit { rlim_cur: 1 << 30, rlim_max: 1 << 30 };
            libc::setrlimit(libc::RLIMIT_AS, &mem);
            let core = libc::rlimit { rlim_cur: 0, rlim_max: 0 };
            libc::setrlimit(libc::RLIMIT_CORE, &core);
            Ok(())
        });
    }
    match cmd.output() {
        Err(e) => {
            rec.skipped = Some(format!("spawn failed: {}", e));
        }
        Ok(o) => {
            rec.exit = o.status.code();
            rec.signal = o.status.signal();
            rec.stdout = o.stdout;
            rec.stderr = o.stderr;
            let mut after = BTreeMap::new();
            collect_files(std::path::Path::new(&root), &root, &mut after);
            for (p, d) in &after {
                if before.get(p) != Some(d) {
                    rec.changed.insert(p.clone(), b64::to_text(d));
                }
            }
            for p in before.keys() {
                if !after.contains_key(p) {
                    rec.changed.insert(p.clone(), "<deleted>".to_string());
                }
            }
            if let Ok(text) = std::fs::read(&log) {
                let text = String::from_utf8_lossy(&text);
                for line in text.lines() {
                    let f: Vec<&str> = line.split('|').collect();
                    if f.first() == Some(&"F") && f.len() >= 4 {
                        let p = if f[2] == "*" { "*".to_string() } else { f[2].strip_prefix(root.as_str()).unwrap_or(f[2]).to_string() };
                        rec.fired.push((f[1].to_string(), p, f[3].parse().unwrap_or(0)));
                    } else if f.len() >= 8 {
                        let resolved = match f[3].strip_prefix(root.as_str()) {
                            Some("") => "/".to_string(),
                            Some(r) if r.starts_with('/') => r.to_string(),
                            _ => format!("!{}", f[3]),
                        };
                        if f[1] == "close" || f[1] == "fstat" {
                            continue;
                        }
                        rec.events.push(ShimEvent { op: f[1].to_string(), path: f[2].replace(root.as_str(), "<root>"), resolved, ret: f[5].parse().unwrap_or(0), errno: f[6].parse().unwrap_or(0), fault: f[7] == "1" });
                    }
                }
            }
            // stderr may mention the scratch root only through absolute paths,
            // which jobs do not use; normalise anyway so records compare
            // across scratch locations
            rec.stderr = strip_thread_ids(&replace_bytes(&rec.stderr, root.as_bytes(), b"<root>"));
            rec.stdout = replace_bytes(&rec.stdout, root.as_bytes(), b"<root>");
        }
    }
    let _ = std::fs::remove_dir_all(&root);
    let _ = std::fs::remove_file(&log);
    rec
}

/// Rust's panic / stack-overflow messages carry the OS thread id
/// ("thread 'main' (15506) panicked"): not part of the program's behaviour.
fn strip_thread_ids(data: &[u8]) -> Vec<u8> {
    let text = String::from_utf8_lossy(data).to_string();
    let mut out = String::new();
    let mut rest = text.as_str();
    while let Some(i) = rest.find("' (") {
        let (head, tail) = rest.split_at(i + 3);
        out.push_str(head);
        let digits: usize = tail.chars().take_while(|c| c.is_ascii_digit()).count();
        if digits > 0 && tail[digits..].starts_with(')') && head.contains("thread '") {
            out.push_str("tid");
            rest = &tail[digits..];
        } else {
            rest = tail;
        }
    }
    out.push_str(rest);
    out.into_bytes()
}

fn replace_bytes(hay: &[u8], needle: &[u8], with: &[u8]) -> Vec<u8> {
    if needle.is_empty() {
        return hay.to_vec();
    }
    let mut out = Vec::with_capacity(hay.len());
    let mut i = 0;
    while i < hay.len() {
        if hay[i..].starts_with(needle) {
            out.extend_from_slice(with);
            i += needle.len();
        } else {
            out.push(hay[i]);
            i += 1;
        }
    }
    out
}

impl<'a> Ctx<'a> {
    pub fn exec_proc(&mut self, plan: &ProcPlan, prop: &str, verif: &str) -> ProcRecord {
        self.step += 1;
        if let Some((k, file)) = &self.dump {
            if *k == self.step {
                let r = proc_replay(prop, self.seed, self.run, Violation::new("I1-abort", "the harness died while executing this plan".to_string()), plan.clone());
                std::fs::write(file, serde_json::to_string_pretty(&r).unwrap()).unwrap();
                unsafe { libc::_exit(0) };
            }
        }
        self.chan.send(&format!("{{\"t\":\"step\",\"run\":{},\"step\":{}}}", self.run, self.step));
        let rec = run_proc(plan, verif);
        self.digest = crate::prng::fnv64(format!("{:016x}{}", self.digest, rec.comparable()).as_bytes());
        rec
    }
}

pub fn proc_replay(prop: &str, seed: u64, run: u64, v: Violation, plan: ProcPlan) -> Replay {
    Replay {
        property: prop.to_string(),
        tier: "proc".to_string(),
        seed,
        run,
        violation: v,
        plan: crate::plan::SimPlan { jobs: vec![], faults: vec![], threads: vec![], schedule: vec![], sched_seed: None, switch_16: 0, clock: vec![], lib_pass: false, all_formats: false, realfs: false, env: vec![], clock_tick_ns: 0 },
        c14: None,
        proc: Some(plan),
        minimised: false,
        build: String::new(),
        note: String::new(),
    }
}

pub fn worker_main(chan: &Channel, a: WorkerArgs) {
    crate::worker::set_limits();
    let corpus: Corpus = crate::corpus::load(&a.repo);
    let mut i = a.from;
    while i < a.to {
        chan.send(&format!("{{\"t\":\"begin\",\"run\":{}}}", i));
        let mut ctx = Ctx { chan, prop: a.prop.clone(), seed: a.seed, run: i, run_seed: run_seed(a.seed, &format!("{}-proc", a.prop), i), step: 0, tier: a.tier.clone(), dump: a.dump.clone(), stats: Stats::default(), digest: 0, verif: a.verif.clone(), pending_c14: None };
        let violations: Vec<Replay> = match a.prop.as_str() {
            "C03" => crate::c03::run_proc(&mut ctx, &corpus, &a.verif),
            "C10" => crate::c10::run_proc(&mut ctx, &corpus, &a.verif),
            "C14" => crate::c14::run_proc(&mut ctx, &corpus, &a.verif),
            _ => panic!("unknown property"),
        };
        let line = serde_json::json!({"t": "end", "run": i, "steps": ctx.step, "stats": ctx.stats, "violations": violations, "digest": format!("{:016x}", ctx.digest)});
        chan.send(&line.to_string());
        i += a.stride;
    }
    chan.send("{\"t\":\"done\"}");
}

pub fn classify(r: &Replay, verif: &str) -> Vec<Violation> {
    match r.property.as_str() {
        "C03" => crate::c03::classify_proc(r, verif),
        "C10" => crate::c10::classify_proc(r, verif),
        "C14" => crate::c14::classify_proc(r, verif),
        _ => vec![],
    }
}

/// Minimisation for process-level plans: drop faults, simplify argv through
/// the spec, drop files, line-level ddmin — same passes as Tier A, on the
/// job inside the ProcPlan.
pub fn minimise(r: &Replay, tmpdir: &str, budget_s: f64) -> Replay {
    use crate::minimize::classify_sub;
    let target = r.violation.class.clone();
    let deadline = crate::seams::real_now() + budget_s;
    let same = |got: &[String]| -> bool {
        if target.starts_with("I1-abort") {
            got.iter().any(|g| g.starts_with("I1-abort"))
        } else {
            got.iter().any(|g| *g == target)
        }
    };
    let mut best = r.clone();
    let mut trials = 0u64;
    let mut ok = |cand: &Replay| -> bool {
        if crate::seams::real_now() > deadline {
            return false;
        }
        trials += 1;
        same(&classify_sub(cand, tmpdir, "pm"))
    };
    // faults
    let mut i = best.proc.as_ref().map(|p| p.faults.len()).unwrap_or(0);
    while i > 0 {
        i -= 1;
        let mut cand = best.clone();
        cand.proc.as_mut().unwrap().faults.remove(i);
        if ok(&cand) {
            best = cand;
        }
    }
    // files
    let paths: Vec<String> = best.proc.as_ref().unwrap().job.disk.nodes.iter().filter(|(_, n)| matches!(n, Node::File(_))).map(|(p, _)| p.clone()).collect();
    for p in &paths {
        let mut cand = best.clone();
        cand.proc.as_mut().unwrap().job.disk.nodes.remove(p);
        if ok(&cand) {
            best = cand;
        }
    }
    // lines
    let paths: Vec<String> = best.proc.as_ref().unwrap().job.disk.nodes.iter().filter(|(_, n)| matches!(n, Node::File(_))).map(|(p, _)| p.clone()).collect();
    for p in &paths {
        let data = match best.proc.as_ref().unwrap().job.disk.nodes.get(p) {
            Some(Node::File(d)) => d.clone(),
            _ => continue,
        };
        let mut lines: Vec<Vec<u8>> = data.split_inclusive(|b| *b == b'\n').map(|l| l.to_vec()).collect();
        let mut chunk = (lines.len() + 1) / 2;
        while chunk >= 1 && !lines.is_empty() {
            let mut i = 0;
            let mut progressed = false;
            while i < lines.len() {
                let end = (i + chunk).min(lines.len());
                let mut cl = lines.clone();
                cl.drain(i..end);
                let mut cand = best.clone();
                cand.proc.as_mut().unwrap().job.disk.nodes.insert(p.clone(), Node::File(cl.concat()));
                if ok(&cand) {
                    lines = cl;
                    best = cand;
                    progressed = true;
                } else {
                    i = end;
                }
            }
            if chunk == 1 && !progressed {
                break;
            }
            if chunk > 1 {
                chunk = (chunk + 1) / 2;
            }
        }
    }
    best.minimised = true;
    best.note = format!("minimised with {} subprocess trials", trials);
    best
}
