//! Tier B (stub, filled in below)
use crate::replay::{Replay, Violation};
use crate::seams::Channel;
use crate::worker::WorkerArgs;
use serde::{Deserialize, Serialize};
#[derive(Clone, Debug, Serialize, Deserialize)]
pub struct ProcPlan {}
pub fn available(_verif: &str) -> bool { false }
pub fn worker_main(_chan: &Channel, _a: WorkerArgs) {}
pub fn classify(_r: &Replay, _verif: &str) -> Vec<Violation> { vec![] }
pub fn minimise(r: &Replay, _tmpdir: &str, _budget: f64) -> Replay { r.clone() }
