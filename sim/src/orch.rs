//! Orchestrator: shards simulated runs over worker processes, attributes
//! worker deaths and hangs to the step that caused them, runs the determinism
//! self-test, minimises and re-verifies every violation in a fresh process,
//! applies the known-findings list and writes the evidence file.
//!
//! Exit status: 0 property held on everything explored; 1 violation(s);
//! 2 harness error (never dressed up as a verdict).

use crate::minimize;
use crate::replay::{self, Replay, Violation};
use crate::seams::real_now;
use crate::stats::Stats;
use std::collections::BTreeMap;
use std::io::{BufRead, BufReader};
use std::process::{Command, Stdio};
use std::sync::{Arc, Mutex};

pub struct CheckArgs {
    pub prop: String,
    pub tier: String,
    pub seed: u64,
    pub workers: usize,
    pub runs: Option<u64>,
    pub repo: String,
    pub verif: String,
    pub proc_runs: Option<u64>,
    pub checked_runs: Option<u64>,
}

#[derive(Default)]
struct WorkerState {
    pid: u32,
    cur_run: Option<u64>,
    cur_step: u64,
    last_progress: f64,
    cpu_at_progress: f64,
    done: bool,
    killed_for_hang: bool,
}

#[derive(Default)]
struct Agg {
    stats: Stats,
    violations: Vec<Replay>,
    /// (run, step, reason)
    crashes: Vec<(u64, u64, String)>,
    digests: BTreeMap<u64, String>,
    runs_done: u64,
    harness_errors: Vec<String>,
    /// the batch was cut short because run after run exceeded its CPU limit
    /// (a systematic hang: the rest of the batch would take hours and say
    /// the same thing)
    stopped_early: bool,
}

fn cpu_seconds(pid: u32) -> f64 {
    let s = match std::fs::read_to_string(format!("/proc/{}/stat", pid)) {
        Ok(s) => s,
        Err(_) => return 0.0,
    };
    // fields after the closing paren of comm
    let rest = match s.rfind(')') {
        Some(i) => &s[i + 2..],
        None => return 0.0,
    };
    let f: Vec<&str> = rest.split_whitespace().collect();
    if f.len() < 14 {
        return 0.0;
    }
    let ut: f64 = f[11].parse().unwrap_or(0.0);
    let st: f64 = f[12].parse().unwrap_or(0.0);
    (ut + st) / 100.0
}

fn sleep_ms(ms: u32) {
    unsafe {
        libc::usleep(ms * 1000);
    }
}

pub fn default_runs(prop: &str, tier: &str) -> (u64, u64) {
    // (Tier A runs, Tier B runs)
    match (prop, tier) {
        ("C03", "quick") => (40000, 3000),
        ("C03", _) => (2000000, 150000),
        ("C10", "quick") => (10000, 1500),
        ("C10", _) => (500000, 60000),
        ("C14", "quick") => (60000, 6000),
        ("C14", _) => (3000000, 300000),
        _ => (100, 10),
    }
}

pub fn default_checked_runs(prop: &str, tier: &str) -> u64 {
    match (prop, tier) {
        ("C03", "quick") => 10000,
        ("C03", _) => 400000,
        ("C14", "quick") => 10000,
        ("C14", _) => 400000,
        _ => 0,
    }
}

struct Shard {
    from: u64,
    to: u64,
    stride: u64,
}

/// "cworker" is the Tier A worker of the *checked* build (overflow checks and
/// debug assertions on: the arithmetic `cargo build` / `cargo test` users run)
fn exe_and_mode(mode: &str) -> (std::path::PathBuf, &str) {
    if mode == "cworker" {
        (replay::exe_for("checked"), "worker")
    } else {
        (std::env::current_exe().unwrap(), mode)
    }
}

pub fn checked_build_available() -> bool {
    replay::this_build() == "checked" || replay::exe_for("checked") != std::env::current_exe().unwrap()
}

fn spawn_worker(a: &CheckArgs, sh: &Shard, mode: &str) -> std::process::Child {
    let (exe, mode) = exe_and_mode(mode);
    Command::new(exe)
        .arg(mode)
        .arg("--prop")
        .arg(&a.prop)
        .arg("--tier")
        .arg(&a.tier)
        .arg("--seed")
        .arg(a.seed.to_string())
        .arg("--from")
        .arg(sh.from.to_string())
        .arg("--to")
        .arg(sh.to.to_string())
        .arg("--stride")
        .arg(sh.stride.to_string())
        .arg("--repo")
        .arg(&a.repo)
        .arg("--verif")
        .arg(&a.verif)
        .stdin(Stdio::null())
        .stdout(Stdio::piped())
        .stderr(Stdio::inherit())
        .spawn()
        .expect("spawn worker")
}

/// Run one shard to completion, restarting the worker after each death.
fn run_shard(a: Arc<CheckArgs>, mut sh: Shard, mode: &'static str, agg: Arc<Mutex<Agg>>, states: Arc<Mutex<Vec<WorkerState>>>, slot: usize) {
    loop {
        if sh.from >= sh.to || agg.lock().unwrap().stopped_early {
            states.lock().unwrap()[slot].done = true;
            return;
        }
        let mut child = spawn_worker(&a, &sh, mode);
        {
            let mut st = states.lock().unwrap();
            st[slot] = WorkerState { pid: child.id(), cur_run: None, cur_step: 0, last_progress: real_now(), cpu_at_progress: 0.0, done: false, killed_for_hang: false };
        }
        let out = child.stdout.take().unwrap();
        let reader = BufReader::new(out);
        let mut finished = false;
        for line in reader.lines() {
            let line = match line {
                Ok(l) => l,
                Err(_) => break,
            };
            let v: serde_json::Value = match serde_json::from_str(&line) {
                Ok(v) => v,
                Err(e) => {
                    agg.lock().unwrap().harness_errors.push(format!("bad worker line: {} ({})", &line[..line.len().min(200)], e));
                    continue;
                }
            };
            let t = v["t"].as_str().unwrap_or("");
            let pid = child.id();
            if agg.lock().unwrap().stopped_early {
                unsafe {
                    libc::kill(pid as i32, libc::SIGKILL);
                }
                let _ = child.wait();
                states.lock().unwrap()[slot].done = true;
                return;
            }
            match t {
                "begin" | "step" => {
                    let mut st = states.lock().unwrap();
                    st[slot].cur_run = v["run"].as_u64();
                    st[slot].cur_step = v["step"].as_u64().unwrap_or(0);
                    st[slot].last_progress = real_now();
                    st[slot].cpu_at_progress = cpu_seconds(pid);
                }
                "end" => {
                    let run = v["run"].as_u64().unwrap_or(0);
                    let stats: Stats = serde_json::from_value(v["stats"].clone()).unwrap_or_default();
                    let viols: Vec<Replay> = serde_json::from_value(v["violations"].clone()).unwrap_or_default();
                    let mut g = agg.lock().unwrap();
                    g.stats.merge(stats, 6);
                    g.violations.extend(viols);
                    if let Some(d) = v["digest"].as_str() {
                        g.digests.insert(run, d.to_string());
                    }
                    g.runs_done += 1;
                    drop(g);
                    let mut st = states.lock().unwrap();
                    st[slot].cur_run = None;
                    st[slot].last_progress = real_now();
                    st[slot].cpu_at_progress = cpu_seconds(pid);
                    sh.from = run + sh.stride;
                }
                "died" => {
                    // the forked child executing this run died; the worker
                    // itself goes on with the next run
                    let run = v["run"].as_u64().unwrap_or(0);
                    let reason = v["reason"].as_str().unwrap_or("unknown").to_string();
                    let step = {
                        let st = states.lock().unwrap();
                        if st[slot].cur_run == Some(run) { st[slot].cur_step } else { 0 }
                    };
                    {
                        let mut g = agg.lock().unwrap();
                        g.crashes.push((run, step, reason));
                        let hangs = g.crashes.iter().filter(|c| c.2 == "signal24" || c.2 == "signal9" || c.2 == "hang").count();
                        if hangs >= 5 {
                            g.stopped_early = true;
                        }
                    }
                    let mut st = states.lock().unwrap();
                    st[slot].cur_run = None;
                    st[slot].last_progress = real_now();
                    sh.from = run + sh.stride;
                }
                "done" => {
                    finished = true;
                }
                _ => {}
            }
        }
        let status = child.wait();
        if finished {
            states.lock().unwrap()[slot].done = true;
            return;
        }
        // the worker died mid-run
        let (cur_run, cur_step, hang) = {
            let st = states.lock().unwrap();
            (st[slot].cur_run, st[slot].cur_step, st[slot].killed_for_hang)
        };
        let reason = if hang {
            "hang".to_string()
        } else {
            match status {
                Ok(s) => {
                    use std::os::unix::process::ExitStatusExt;
                    match s.signal() {
                        Some(sig) => format!("signal{}", sig),
                        None => format!("exit{}", s.code().unwrap_or(-1)),
                    }
                }
                Err(_) => "unknown".to_string(),
            }
        };
        match cur_run {
            Some(r) => {
                let mut g = agg.lock().unwrap();
                g.crashes.push((r, cur_step, reason));
                if g.crashes.iter().filter(|c| c.2 == "signal24" || c.2 == "signal9" || c.2 == "hang").count() >= 5 {
                    g.stopped_early = true;
                }
                drop(g);
                sh.from = r + sh.stride;
            }
            None => {
                agg.lock().unwrap().harness_errors.push(format!("worker died outside a run ({})", reason));
                states.lock().unwrap()[slot].done = true;
                return;
            }
        }
    }
}

fn run_batch(a: &Arc<CheckArgs>, total: u64, workers: usize, mode: &'static str, first: u64) -> Agg {
    let agg = Arc::new(Mutex::new(Agg::default()));
    let states = Arc::new(Mutex::new((0..workers).map(|_| WorkerState::default()).collect::<Vec<_>>()));
    let mut threads = Vec::new();
    for w in 0..workers {
        let sh = Shard { from: first + w as u64, to: first + total, stride: workers as u64 };
        let (a2, agg2, st2) = (a.clone(), agg.clone(), states.clone());
        threads.push(std::thread::spawn(move || run_shard(a2, sh, mode, agg2, st2, w)));
    }
    // watchdog: a worker that burns 60 s of CPU without any progress line is
    // stuck inside one plan execution (CPU time, so machine load cannot
    // cause it)
    loop {
        sleep_ms(100);
        let mut all_done = true;
        {
            let mut st = states.lock().unwrap();
            for s in st.iter_mut() {
                if s.done {
                    continue;
                }
                all_done = false;
                if s.pid != 0 && s.cur_run.is_some() && !s.killed_for_hang {
                    let cpu = cpu_seconds(s.pid);
                    if cpu - s.cpu_at_progress > 60.0 {
                        s.killed_for_hang = true;
                        unsafe {
                            libc::kill(s.pid as i32, libc::SIGKILL);
                        }
                    }
                }
            }
        }
        if all_done {
            break;
        }
    }
    for t in threads {
        let _ = t.join();
    }
    let mut g = agg.lock().unwrap();
    std::mem::take(&mut *g)
}

/// Regenerate the plan of (run, step) as a replay file by re-running the
/// worker in dump mode.
fn dump_step(a: &CheckArgs, mode: &str, run: u64, step: u64, file: &str) -> bool {
    let (exe, mode) = exe_and_mode(mode);
    let st = Command::new(exe)
        .arg(mode)
        .args(["--prop", &a.prop, "--tier", &a.tier, "--seed", &a.seed.to_string(), "--from", &run.to_string(), "--to", &(run + 1).to_string(), "--stride", "1", "--repo", &a.repo, "--verif", &a.verif])
        .args(["--dump-step", &step.to_string(), "--dump-to", file])
        .stdin(Stdio::null())
        .stdout(Stdio::null())
        .status();
    st.is_ok() && std::path::Path::new(file).exists()
}

pub fn check_main(args: CheckArgs) -> i32 {
    let t0 = real_now();
    let a = Arc::new(args);
    let (def_a, def_b) = default_runs(&a.prop, &a.tier);
    let total_a = a.runs.unwrap_or(def_a);
    let total_b = a.proc_runs.unwrap_or(def_b);
    println!("# check {} tier={} seed={} lib-runs={} proc-runs={} workers={}", a.prop, a.tier, a.seed, total_a, total_b, a.workers);
    let tmpdir = format!("{}/replays/tmp", a.verif);
    let _ = std::fs::create_dir_all(&tmpdir);

    // ---- Tier A
    let mut agg = run_batch(&a, total_a, a.workers, "worker", 0);
    let t_a = real_now() - t0;

    // ---- Tier A again, in the checked build (overflow checks and debug
    // assertions on), over the next run indices: which build executes a run
    // is a function of its index, not of the worker count
    let total_c = a.checked_runs.unwrap_or(default_checked_runs(&a.prop, &a.tier));
    let tc0 = real_now();
    let mut agg_c = if total_c > 0 && checked_build_available() { run_batch(&a, total_c, a.workers, "cworker", total_a) } else { Agg::default() };
    let t_c = real_now() - tc0;

    // ---- Tier B
    let tb0 = real_now();
    let mut agg_b = if total_b > 0 && crate::procsim::available(&a.verif) { run_batch(&a, total_b, a.workers, "procworker", 0) } else { Agg::default() };
    let t_b = real_now() - tb0;

    // ---- determinism self-test: re-run a sample of runs with another
    // worker count and compare the full event-log digests
    let sample = if a.tier == "quick" { 48.min(total_a) } else { 400.min(total_a) };
    let mut det_ok = true;
    let mut det_checked = 0u64;
    if sample > 0 {
        let again1 = run_batch(&a, sample, 1.max(a.workers / 4), "worker", 0);
        let again2 = run_batch(&a, sample, 3, "worker", 0);
        for again in [&again1, &again2] {
            for (run, d) in &again.digests {
                if let Some(d0) = agg.digests.get(run) {
                    det_checked += 1;
                    if d0 != d {
                        det_ok = false;
                        agg.harness_errors.push(format!("non-determinism: run {} digest {} vs {}", run, d0, d));
                    }
                }
            }
        }
    }
    let mut det_b_checked = 0u64;
    if total_b > 0 && !agg_b.digests.is_empty() {
        let sample_b = if a.tier == "quick" { 16.min(total_b) } else { 100.min(total_b) };
        let again = run_batch(&a, sample_b, 2, "procworker", 0);
        for (run, d) in &again.digests {
            if let Some(d0) = agg_b.digests.get(run) {
                det_b_checked += 1;
                if d0 != d {
                    det_ok = false;
                    agg.harness_errors.push(format!("non-determinism (proc): run {} digest {} vs {}", run, d0, d));
                }
            }
        }
    }

    let mut worker_errors: Vec<String> = Vec::new();
    for src in [&agg.stats, &agg_b.stats, &agg_c.stats] {
        if let Some(set) = src.distinct.get("harness_errors") {
            worker_errors.extend(set.iter().take(5).cloned());
        }
    }
    agg.harness_errors.extend(worker_errors);

    // ---- crashes -> replay files
    let mut all_viol: Vec<Replay> = Vec::new();
    all_viol.append(&mut agg.violations);
    all_viol.append(&mut agg_b.violations);
    all_viol.append(&mut agg_c.violations);
    for (mode, crashes) in [("worker", agg.crashes.clone()), ("procworker", agg_b.crashes.clone()), ("cworker", agg_c.crashes.clone())] {
        // a systematic crash (every cyclic case overflows the stack) can kill
        // thousands of runs: regenerate and classify a bounded number per
        // reason, count the rest
        let mut per_reason: BTreeMap<String, usize> = BTreeMap::new();
        for (run, step, reason) in crashes {
            let n = per_reason.entry(reason.clone()).or_insert(0);
            *n += 1;
            if *n > 6 {
                continue;
            }
            let file = format!("{}/crash-{}-{}-{}.json", tmpdir, a.prop, run, step);
            if dump_step(&a, mode, run, step.max(1), &file) {
                if let Ok(txt) = std::fs::read_to_string(&file) {
                    if let Ok(mut r) = serde_json::from_str::<Replay>(&txt) {
                        r.violation = Violation::new(&format!("I1-abort:{}", reason), format!("worker process died ({}) during run {} step {}", reason, run, step));
                        // re-execute in a fresh process to learn the specific
                        // signature (allocation site, stack overflow, hang)
                        let got = minimize::classify_full(&r, &tmpdir, "crash");
                        if let Some(v) = got.iter().find(|v| v.class.starts_with("I1-abort")) {
                            r.violation = v.clone();
                        }
                        all_viol.push(r);
                    }
                }
                let _ = std::fs::remove_file(&file);
            } else {
                agg.harness_errors.push(format!("could not regenerate crashing step run={} step={} ({})", run, step, reason));
            }
        }
    }

    // ---- group by class, minimise, verify, apply known findings
    let findings = replay::load_findings(&format!("{}/known_findings.txt", a.verif));
    all_viol.sort_by(|x, y| (x.violation.class.clone(), x.tier.clone(), x.run).cmp(&(y.violation.class.clone(), y.tier.clone(), y.run)));
    let mut by_class: BTreeMap<String, Vec<Replay>> = BTreeMap::new();
    for r in all_viol {
        by_class.entry(r.violation.class.clone()).or_default().push(r);
    }
    let mut violations_reported = 0;
    let mut known_reported = 0;
    // total minimisation budget per check: with many classes at once (a
    // broken exit status touches everything) the later ones are verified and
    // reported unminimised
    let mut min_budget_left: f64 = if a.tier == "quick" { 90.0 } else { 600.0 };

    // ---- regression inputs: replay files of repaired defects; a fixed entry
    // suppresses nothing, so if one of them reproduces it is a violation
    let mut regressions_replayed = 0u64;
    if let Ok(rd) = std::fs::read_dir(format!("{}/findings", a.verif)) {
        let mut files: Vec<std::path::PathBuf> = rd.filter_map(|e| e.ok()).map(|e| e.path()).filter(|p| p.file_name().map(|n| n.to_string_lossy().starts_with(&format!("{}-", a.prop))).unwrap_or(false)).collect();
        files.sort();
        for f in files {
            if let Ok(txt) = std::fs::read_to_string(&f) {
                if let Ok(r) = serde_json::from_str::<Replay>(&txt) {
                    regressions_replayed += 1;
                    let got = minimize::classify_full(&r, &tmpdir, "reg");
                    if let Some(v) = got.iter().find(|v| v.class == r.violation.class) {
                        println!("# repaired defect is back ({}): {}", v.class, truncate(&v.detail, 300));
                        println!("VIOLATION property={} replay={}", a.prop, f.to_string_lossy());
                        violations_reported += 1;
                    }
                }
            }
        }
    }
    let total_violation_count: usize = by_class.values().map(|v| v.len()).sum();
    for (class, list) in &by_class {
        let first = &list[0];
        if let Some(text) = replay::known_match(&findings, &a.prop, class) {
            let what = text.trim_start_matches("known:").trim();
            let what = what.strip_prefix(&format!("property={}", a.prop)).unwrap_or(what).trim();
            println!("KNOWN-FINDING: property={} {} (met {} time(s) in this run)", a.prop, what, list.len());
            known_reported += 1;
            continue;
        }
        // confirm in a fresh process, then minimise
        // (every minimisation trial of a hang costs a full CPU limit: verify only)
        let budget = if class == "I1-abort:hang" { 0.0 } else { (if a.tier == "quick" { 20.0f64 } else { 60.0 }).min(min_budget_left.max(0.0)) };
        let tm = real_now();
        let (min, verified) = minimize::minimise_and_verify(first, &tmpdir, budget);
        min_budget_left -= real_now() - tm;
        match verified {
            minimize::Verified::Reproduced => {
                let dg = crate::prng::hex128(crate::prng::digest128(serde_json::to_string(&min.plan).unwrap().as_bytes()));
                let path = format!("{}/replays/{}-{}.json", a.verif, a.prop, &dg[..16]);
                std::fs::write(&path, serde_json::to_string_pretty(&min).unwrap()).unwrap();
                println!("# {} occurrence(s) of {}: {}", list.len(), class, truncate(&min.violation.detail, 400));
                println!("VIOLATION property={} replay={}", a.prop, path);
                violations_reported += 1;
            }
            minimize::Verified::NotReproduced => {
                let path = format!("{}/replays/{}-unreproduced-{}.json", a.verif, a.prop, first.run);
                let _ = std::fs::write(&path, serde_json::to_string_pretty(first).unwrap());
                agg.harness_errors.push(format!("violation class {} (run {}) did not reproduce in a fresh process; kept as {}", class, first.run, path));
            }
        }
    }

    // ---- evidence
    let wall = real_now() - t0;
    let mut stats = agg.stats.clone();
    let stats_b = agg_b.stats.clone();
    let evals = stats.get("evaluations") + stats_b.get("evaluations") + agg_c.stats.get("evaluations");
    let nontrivial = stats.count("nontrivial") + stats_b.count("nontrivial");
    let mut samples = stats.samples.clone();
    samples.extend(stats_b.samples.iter().cloned());
    if samples.is_empty() {
        samples.push(serde_json::json!("no sample recorded"));
    }
    let level = if a.prop == "C03" { "fault_enumeration" } else { "exploration" };
    let counters_b: BTreeMap<String, u64> = stats_b.counters.clone();
    let distinct_counts: BTreeMap<String, u64> = stats.distinct.iter().map(|(k, v)| (k.clone(), v.len() as u64)).collect();
    let distinct_counts_b: BTreeMap<String, u64> = stats_b.distinct.iter().map(|(k, v)| (k.clone(), v.len() as u64)).collect();
    stats.distinct.clear();
    let ev = serde_json::json!({
        "property_id": a.prop,
        "tier": if a.tier == "quick" { "quick" } else { "thorough" },
        "seed": a.seed,
        "level": level,
        "wall_s": wall,
        "violations": violations_reported,
        "coverage": {
            "evaluations": evals,
            "distinct_nontrivial": nontrivial,
            "rule": crate::evidence_rule(&a.prop),
            "samples": samples,
            "exhaustive": false,
            "simulated_runs_lib": agg.runs_done,
            "simulated_runs_proc": agg_b.runs_done,
            "simulated_runs_lib_checked_build": agg_c.runs_done,
            "checked_build": {"what": "the same Tier A harness and customasm sources compiled with overflow-checks and debug-assertions on (the arithmetic of `cargo build`/`cargo test`), run over the run indices after the release-profile ones", "runs": agg_c.runs_done, "plan_executions": agg_c.stats.get("evaluations"), "wall_s": t_c, "worker_deaths": agg_c.crashes.len(), "available": checked_build_available()},
            "plan_executions_lib": stats.get("evaluations"),
            "process_executions_proc": stats_b.get("evaluations"),
            "runs_per_hour": if wall > 0.0 { ((agg.runs_done + agg_b.runs_done + agg_c.runs_done) as f64 / wall * 3600.0) as u64 } else { 0 },
            "seeds_per_hour": if wall > 0.0 { ((agg.runs_done + agg_b.runs_done + agg_c.runs_done) as f64 / wall * 3600.0) as u64 } else { 0 },
            "executions_per_hour": if wall > 0.0 { (evals as f64 / wall * 3600.0) as u64 } else { 0 },
            "wall_s_lib": t_a,
            "wall_s_proc": t_b,
            "counters_lib": stats.counters,
            "counters_proc": counters_b,
            "distinct_lib": distinct_counts,
            "distinct_proc": distinct_counts_b,
            "determinism_selftest": {"ok": det_ok, "lib_runs_compared": det_checked, "proc_runs_compared": det_b_checked, "method": "same run indices re-executed in other worker processes at two other worker counts; full event-log digests compared"},
            "worker_deaths": agg.crashes.len() + agg_b.crashes.len() + agg_c.crashes.len(),
            "violation_occurrences": total_violation_count,
            "violation_classes": by_class.keys().cloned().collect::<Vec<_>>(),
            "known_findings_met": known_reported,
            "regression_replays": regressions_replayed,
            "simulated_time_covered_s": stats.get("max_clock_s"),
            "simulated_time_note": "customasm reads no clock: simulated time moves through the clock script (values between the epoch and year 10000, jumps forwards and backwards between and during jobs) and, in one plan in three, with every read of the clock (a tick of 1 us to 10 s, or -1 s); there are no timers or deadlines to fast-forward",
            "harness_errors": agg.harness_errors.clone(),
            "real_vs_stub": crate::real_vs_stub(),
        },
        "assumptions": crate::assumptions(&a.prop),
    });
    let evdir = format!("{}/evidence", a.verif);
    let _ = std::fs::create_dir_all(&evdir);
    std::fs::write(format!("{}/{}.json", evdir, a.prop), serde_json::to_string_pretty(&ev).unwrap()).unwrap();

    println!(
        "# {} {}: {} runs ({} lib + {} lib/checked build + {} proc), {} executions, {} distinct non-trivial, {:.1}s; violations={} known={} harness_errors={}",
        a.prop,
        a.tier,
        agg.runs_done + agg_b.runs_done + agg_c.runs_done,
        agg.runs_done,
        agg_c.runs_done,
        agg_b.runs_done,
        evals,
        nontrivial,
        wall,
        violations_reported,
        known_reported,
        agg.harness_errors.len()
    );
    if !agg.harness_errors.is_empty() || !agg_b.harness_errors.is_empty() || !agg_c.harness_errors.is_empty() {
        for e in agg.harness_errors.iter().chain(agg_b.harness_errors.iter()).chain(agg_c.harness_errors.iter()) {
            println!("HARNESS-ERROR: {}", truncate(e, 600));
        }
        if violations_reported > 0 {
            return 1;
        }
        return 2;
    }
    if agg.stopped_early || agg_b.stopped_early || agg_c.stopped_early {
        println!("# a batch was cut short: run after run exceeded its CPU limit ({} + {} + {} runs completed)", agg.runs_done, agg_c.runs_done, agg_b.runs_done);
        return if violations_reported > 0 { 1 } else { 2 };
    }
    if agg.runs_done + (agg.crashes.len() as u64) < total_a {
        println!("HARNESS-ERROR: only {} of {} runs completed", agg.runs_done, total_a);
        return 2;
    }
    if total_c > 0 && checked_build_available() && agg_c.runs_done + (agg_c.crashes.len() as u64) < total_c {
        println!("HARNESS-ERROR: only {} of {} checked-build runs completed", agg_c.runs_done, total_c);
        return 2;
    }
    if total_c > 0 && !checked_build_available() {
        println!("HARNESS-ERROR: the checked build of the harness is missing (bin/setup builds it)");
        return 2;
    }
    if violations_reported > 0 {
        1
    } else {
        0
    }
}

pub fn truncate(s: &str, n: usize) -> String {
    if s.len() <= n {
        s.to_string()
    } else {
        let mut e = n;
        while !s.is_char_boundary(e) {
            e -= 1;
        }
        format!("{}…", &s[..e])
    }
}
