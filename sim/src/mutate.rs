//! Token-level mutation of corpus sources. The mutator never synthesises a
//! number: literals are only ever copied from the corpus.

use crate::prng::Rng;
use serde::{Deserialize, Serialize};

#[derive(Clone, Debug, PartialEq, Eq, Serialize, Deserialize)]
pub enum Mutation {
    DeleteToken(usize),
    DuplicateToken(usize),
    SwapTokens(usize, usize),
    Transplant { at: usize, text: String },
    InsertBytes { at: usize, bytes: Vec<u8> },
    Truncate(usize),
    DeleteLine(usize),
    DuplicateLine(usize),
    SwapLines(usize, usize),
    /// a block of consecutive lines from another corpus file, inserted at a
    /// line boundary (mixes language features that no single test combines)
    InsertLines { at: usize, text: String },
    /// make a line very long: a trailing comment of `width` characters
    /// (optionally with multi-byte characters) and/or leading blanks that
    /// push the code to a far column
    PadLine { line: usize, width: usize, lead: usize, multibyte: bool },
}

pub const NON_ASCII: &[&[u8]] = &[
    "é".as_bytes(),
    "ñ".as_bytes(),
    "€".as_bytes(),
    "‰".as_bytes(),
    "日".as_bytes(),
    "😀".as_bytes(),
    "\u{a0}".as_bytes(),
    "\u{2028}".as_bytes(),
    "\u{feff}".as_bytes(),
    &[0x80],
    &[0xff],
    &[0xc3],
    &[0xe2, 0x82],
];

/// Split into tokens: identifier/number runs, whitespace runs, newlines,
/// string literals, comments, single other bytes. Concatenation of the
/// tokens is the input.
pub fn tokens(src: &[u8]) -> Vec<&[u8]> {
    let mut out = Vec::new();
    let mut i = 0;
    let is_word = |b: u8| b.is_ascii_alphanumeric() || b == b'_' || b == b'.' || b == b'$' || b >= 0x80;
    while i < src.len() {
        let b = src[i];
        let start = i;
        if b == b'\n' {
            i += 1;
        } else if b == b' ' || b == b'\t' || b == b'\r' {
            while i < src.len() && (src[i] == b' ' || src[i] == b'\t' || src[i] == b'\r') {
                i += 1;
            }
        } else if is_word(b) {
            while i < src.len() && is_word(src[i]) {
                i += 1;
            }
        } else if b == b'"' {
            i += 1;
            while i < src.len() && src[i] != b'"' && src[i] != b'\n' {
                if src[i] == b'\\' && i + 1 < src.len() {
                    i += 1;
                }
                i += 1;
            }
            if i < src.len() && src[i] == b'"' {
                i += 1;
            }
        } else if b == b';' {
            while i < src.len() && src[i] != b'\n' {
                i += 1;
            }
        } else {
            i += 1;
        }
        out.push(&src[start..i]);
    }
    out
}

fn significant(toks: &[&[u8]]) -> Vec<usize> {
    toks.iter().enumerate().filter(|(_, t)| !t.is_empty() && !matches!(t[0], b' ' | b'\t' | b'\r' | b'\n' | b';')).map(|(i, _)| i).collect()
}

/// A numeric literal of more than 16 bits. Mutations never *place* such a
/// token at a new position: magnitude-driven resource exhaustion is another
/// property's subject (C19), and a 2-gigabit slice is slow, not wrong.
pub fn is_big_number(tok: &[u8]) -> bool {
    if tok.is_empty() || !tok[0].is_ascii_digit() {
        return false;
    }
    let t: Vec<u8> = tok.iter().copied().filter(|b| *b != b'_').collect();
    let s = String::from_utf8_lossy(&t).to_lowercase();
    let v = if let Some(h) = s.strip_prefix("0x") {
        u64::from_str_radix(h, 16)
    } else if let Some(b) = s.strip_prefix("0b") {
        u64::from_str_radix(b, 2)
    } else if let Some(o) = s.strip_prefix("0o") {
        u64::from_str_radix(o, 8)
    } else {
        s.parse::<u64>()
    };
    match v {
        Ok(n) => n > 0xffff,
        Err(_) => t.len() > 6,
    }
}

/// Does a mutation leave a *changed* line on which a magnitude-consuming
/// construct (address, reservation, alignment, bank geometry, shift, slice,
/// size cast, repetition) meets a string literal or a number above 16 bits?
/// Such mutants are redrawn: what the assembler does with absurd magnitudes
/// is another property's subject (C19).
pub fn magnitude_risky(old: &[u8], new: &[u8]) -> bool {
    let old_lines: std::collections::BTreeSet<&[u8]> = old.split(|b| *b == b'\n').collect();
    for line in new.split(|b| *b == b'\n') {
        if old_lines.contains(line) {
            continue;
        }
        let text = String::from_utf8_lossy(line).to_lowercase();
        let consumer = ["#addr", "#res", "#align", "#outp", "#size", "#bits", "#labelalign", "#fill", "<<", ">>", "[", "`", "addr", "outp", "size"].iter().any(|k| text.contains(k));
        if !consumer {
            continue;
        }
        let toks = tokens(line);
        if toks.iter().any(|t| is_string(t) || is_big_number(t)) {
            return true;
        }
    }
    false
}

pub fn is_string(tok: &[u8]) -> bool {
    tok.first() == Some(&b'"')
}

pub fn draw(rng: &mut Rng, src: &[u8], donors: &[Vec<u8>]) -> Mutation {
    let toks = tokens(src);
    let sig = significant(&toks);
    let nlines = src.iter().filter(|b| **b == b'\n').count() + 1;
    loop {
        let k = rng.below(100);
        if sig.is_empty() && k < 60 {
            continue;
        }
        if rng.chance(1, 12) {
            return Mutation::PadLine { line: rng.below(nlines), width: *rng.pick(&[150usize, 170, 200, 239, 240, 241, 300, 500]), lead: *rng.pick(&[0usize, 0, 0, 150, 200, 400, 400]), multibyte: rng.chance(1, 2) };
        }
        if !sig.is_empty() && rng.chance(1, 14) {
            // a lexically degenerate sibling of a literal: a radix prefix with
            // no digits, digits that are only separators, a string that ends
            // in a backslash or holds an escaped quote (no magnitudes here)
            let nums: Vec<usize> = sig.iter().copied().filter(|i| toks[*i].first().map(|b| b.is_ascii_digit()).unwrap_or(false)).collect();
            let strs: Vec<usize> = sig.iter().copied().filter(|i| is_string(toks[*i])).collect();
            if !strs.is_empty() && (nums.is_empty() || rng.chance(1, 3)) {
                let at = *rng.pick(&strs);
                let inner = String::from_utf8_lossy(&toks[at][1..toks[at].len().saturating_sub(1).max(1)]).to_string();
                let text = match rng.below(6) {
                    0 => "\"\"".to_string(),
                    1 => format!("\"{}\\\\\"", inner),
                    2 => format!("\"{}\\\"\"", inner),
                    3 => format!("\"\\\"{}\"", inner),
                    4 => format!("\"{}\\\"", inner),
                    _ => format!("\"{}\\n\"", inner),
                };
                return Mutation::Transplant { at, text };
            }
            if !nums.is_empty() {
                let at = *rng.pick(&nums);
                let text = rng.pick(&["0x", "0x_", "0b_", "0b__", "0o_", "0b", "0o", "1_", "0x1_", "1__0", "0x_1", "0b2", "0o8", "0xg", "1x", "00", "0_0", "0XFF", "0B101", "0O17", "0Xff", "0xab[2:4]", "0xab[2:3]", "0xab[1:3]", "0xab[0:2]", "0xab[3:3]", "0xab[0:1]", "5[1:4]"]).to_string();
                return Mutation::Transplant { at, text };
            }
        }
        if !donors.is_empty() && rng.chance(1, 5) {
            let d = rng.pick(donors);
            let dl: Vec<&[u8]> = d.split_inclusive(|b| *b == b'\n').collect();
            if !dl.is_empty() {
                let from = rng.below(dl.len());
                let n = rng.range(1, 8).min(dl.len() - from);
                let block: Vec<u8> = dl[from..from + n].concat();
                if !tokens(&block).iter().any(|t| is_big_number(t)) {
                    let mut text = String::from_utf8_lossy(&block).to_string();
                    if !text.ends_with('\n') {
                        text.push('\n');
                    }
                    return Mutation::InsertLines { at: rng.below(nlines + 1), text };
                }
            }
        }
        return match k {
            0..=14 => Mutation::DeleteToken(*rng.pick(&sig)),
            15..=24 => {
                let i = *rng.pick(&sig);
                if is_big_number(toks[i]) {
                    continue;
                }
                Mutation::DuplicateToken(i)
            }
            25..=34 => {
                let (a, b) = (*rng.pick(&sig), *rng.pick(&sig));
                if is_big_number(toks[a]) || is_big_number(toks[b]) || is_string(toks[a]) != is_string(toks[b]) {
                    continue;
                }
                Mutation::SwapTokens(a, b)
            }
            35..=59 => {
                if donors.is_empty() {
                    continue;
                }
                let d = rng.pick(donors);
                let dt = tokens(d);
                let ds = significant(&dt);
                if ds.is_empty() {
                    continue;
                }
                let t = dt[*rng.pick(&ds)];
                if is_big_number(t) {
                    continue;
                }
                // a string literal is also a (large) integer: only ever put
                // one where a string already stood
                let at = *rng.pick(&sig);
                if is_string(t) != is_string(toks[at]) {
                    continue;
                }
                return Mutation::Transplant { at, text: String::from_utf8_lossy(t).to_string() };
                #[allow(unreachable_code)]
                Mutation::Transplant { at: *rng.pick(&sig), text: String::from_utf8_lossy(t).to_string() }
            }
            60..=79 => Mutation::InsertBytes { at: rng.below(src.len() + 1), bytes: rng.pick(NON_ASCII).to_vec() },
            80..=84 => Mutation::Truncate(rng.below(src.len() + 1)),
            85..=89 => Mutation::DeleteLine(rng.below(nlines)),
            90..=94 => {
                let i = rng.below(nlines);
                let line = src.split_inclusive(|b| *b == b'\n').nth(i).unwrap_or(&[]);
                if tokens(line).iter().any(|t| is_big_number(t)) {
                    continue;
                }
                Mutation::DuplicateLine(i)
            }
            _ => Mutation::SwapLines(rng.below(nlines), rng.below(nlines)),
        };
    }
}

pub fn apply(src: &[u8], m: &Mutation) -> Vec<u8> {
    let toks = tokens(src);
    let join = |ts: Vec<&[u8]>| -> Vec<u8> { ts.concat() };
    match m {
        Mutation::DeleteToken(i) => {
            let mut t = toks.clone();
            if *i < t.len() {
                t.remove(*i);
            }
            join(t)
        }
        Mutation::DuplicateToken(i) => {
            let mut t = toks.clone();
            if *i < t.len() {
                let x = t[*i];
                t.insert(*i, b" ");
                t.insert(*i, x);
            }
            join(t)
        }
        Mutation::SwapTokens(a, b) => {
            let mut t = toks.clone();
            if *a < t.len() && *b < t.len() {
                t.swap(*a, *b);
            }
            join(t)
        }
        Mutation::Transplant { at, text } => {
            let mut t = toks.clone();
            if *at < t.len() {
                t[*at] = text.as_bytes();
            }
            join(t)
        }
        Mutation::InsertBytes { at, bytes } => {
            let at = (*at).min(src.len());
            let mut v = src[..at].to_vec();
            v.extend_from_slice(bytes);
            v.extend_from_slice(&src[at..]);
            v
        }
        Mutation::Truncate(n) => src[..(*n).min(src.len())].to_vec(),
        Mutation::DeleteLine(i) | Mutation::DuplicateLine(i) => {
            let mut lines: Vec<&[u8]> = src.split_inclusive(|b| *b == b'\n').collect();
            if *i < lines.len() {
                if matches!(m, Mutation::DeleteLine(_)) {
                    lines.remove(*i);
                } else {
                    let l = lines[*i];
                    lines.insert(*i, l);
                }
            }
            lines.concat()
        }
        Mutation::PadLine { line, width, lead, multibyte } => {
            let mut lines: Vec<Vec<u8>> = src.split_inclusive(|b| *b == b'\n').map(|l| l.to_vec()).collect();
            if *line < lines.len() {
                let l = &mut lines[*line];
                let had_nl = l.ends_with(b"\n");
                if had_nl {
                    l.pop();
                }
                let mut padded: Vec<u8> = vec![b' '; *lead];
                padded.extend_from_slice(l);
                padded.extend_from_slice(b" ; ");
                let mut i = 0;
                while i < *width {
                    if *multibyte && i % 3 == 1 {
                        padded.extend_from_slice("\u{e9}\u{65e5}".as_bytes());
                    } else {
                        padded.push(b'x');
                    }
                    i += 1;
                }
                if had_nl {
                    padded.push(b'\n');
                }
                *l = padded;
                // code pushed to a far column: its neighbour above becomes a
                // long line of a different, shorter length (excerpts show
                // several lines around the marked one)
                if *lead >= 300 && *line > 0 {
                    let prev = &mut lines[*line - 1];
                    let had_nl = prev.ends_with(b"\n");
                    if had_nl {
                        prev.pop();
                    }
                    if prev.len() < 170 {
                        prev.extend_from_slice(b" ; ");
                        while prev.len() < 170 + (*width % 60) {
                            prev.push(b'y');
                        }
                    }
                    if had_nl {
                        prev.push(b'\n');
                    }
                }
            }
            lines.concat()
        }
        Mutation::InsertLines { at, text } => {
            let mut lines: Vec<&[u8]> = src.split_inclusive(|b| *b == b'\n').collect();
            let at = (*at).min(lines.len());
            lines.insert(at, text.as_bytes());
            let mut out = Vec::new();
            for (i, l) in lines.iter().enumerate() {
                out.extend_from_slice(l);
                // keep the inserted block on its own lines
                if i + 1 == at && !l.ends_with(b"\n") {
                    out.push(b'\n');
                }
            }
            out
        }
        Mutation::SwapLines(a, b) => {
            let mut lines: Vec<&[u8]> = src.split_inclusive(|b| *b == b'\n').collect();
            if *a < lines.len() && *b < lines.len() {
                lines.swap(*a, *b);
            }
            lines.concat()
        }
    }
}
