//! Replay files: self-contained records of one violating execution (the
//! decisions, not just the seed), and the known-findings list.

use crate::plan::SimPlan;
use serde::{Deserialize, Serialize};

#[derive(Clone, Debug, PartialEq, Eq, Serialize, Deserialize)]
pub struct Violation {
    /// stable class string, e.g. "I1-panic@src/syntax/walker.rs:244"
    pub class: String,
    pub detail: String,
}

impl Violation {
    pub fn new(class: &str, detail: String) -> Violation {
        Violation { class: class.to_string(), detail }
    }
}

#[derive(Clone, Debug, Serialize, Deserialize)]
pub struct Replay {
    pub property: String,
    /// "lib" (Tier A, in-process) or "proc" (Tier B, real binary under the shim)
    pub tier: String,
    pub seed: u64,
    pub run: u64,
    pub violation: Violation,
    pub plan: SimPlan,
    /// C14: the structured case the plan was rendered from
    #[serde(default)]
    pub c14: Option<crate::c14::Case>,
    /// Tier B: the process-level plan
    #[serde(default)]
    pub proc: Option<crate::procsim::ProcPlan>,
    #[serde(default)]
    pub minimised: bool,
    /// which build of the harness (and of customasm inside it) executed it:
    /// "" = release profile, "checked" = release + overflow-checks +
    /// debug-assertions (what `cargo build` / `cargo test` users run)
    #[serde(default)]
    pub build: String,
    #[serde(default)]
    pub note: String,
}

/// The build this process is ("" or "checked").
pub fn this_build() -> &'static str {
    if cfg!(debug_assertions) {
        "checked"
    } else {
        ""
    }
}

/// The harness executable of a given build, next to the running one
/// (`<verif>/target/{release,checked}/sim`).
pub fn exe_for(build: &str) -> std::path::PathBuf {
    let cur = std::env::current_exe().unwrap();
    if build == this_build() {
        return cur;
    }
    let dir = if build == "checked" { "checked" } else { "release" };
    match cur.parent().and_then(|p| p.parent()) {
        Some(target) => {
            let cand = target.join(dir).join("sim");
            if cand.exists() {
                cand
            } else {
                cur
            }
        }
        None => cur,
    }
}

#[derive(Clone, Debug)]
pub enum Finding {
    /// suppresses nothing; recorded for the history
    Fixed { property: String, text: String },
    /// a genuine defect recorded rather than repaired: matched by signature
    Known { property: String, signature: String, text: String },
}

pub fn load_findings(path: &str) -> Vec<Finding> {
    let mut out = Vec::new();
    let text = match std::fs::read_to_string(path) {
        Ok(t) => t,
        Err(_) => return out,
    };
    for line in text.lines() {
        let l = line.trim();
        if l.is_empty() || l.starts_with('#') {
            continue;
        }
        let prop = l.split_whitespace().find_map(|w| w.strip_prefix("property=")).unwrap_or("").to_string();
        if l.starts_with("fixed:") {
            out.push(Finding::Fixed { property: prop, text: l.to_string() });
        } else if l.starts_with("known:") {
            let sig = l.split_whitespace().find_map(|w| w.strip_prefix("signature=")).unwrap_or("").to_string();
            out.push(Finding::Known { property: prop, signature: sig, text: l.to_string() });
        }
    }
    out
}

/// A violation matches a known finding iff its class equals the signature.
pub fn known_match<'a>(findings: &'a [Finding], property: &str, class: &str) -> Option<&'a str> {
    for f in findings {
        if let Finding::Known { property: p, signature, text } = f {
            // a signature ending in '*' matches every class with that prefix
            // (used for one finding only: allocation failures, see DESIGN §11.2)
            let hit = match signature.strip_suffix('*') {
                Some(prefix) => class.starts_with(prefix),
                None => signature == class,
            };
            if p == property && hit {
                return Some(text);
            }
        }
    }
    None
}
